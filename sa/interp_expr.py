"""L2 - expression evaluation (mixin of the interpreter)."""
from __future__ import annotations

import ast
from typing import Any, Dict, Iterator, List, Optional, Tuple

from .interp import Frame, _Raise, exc_class_of
from .loader import ClassInfo, FuncInfo, Module
from .values import _uid as _uid_counter
from .values import (ELL, NIL, ClassV, Const, DictV, ExcV, Ext, FuncV, Inst, ListV, ModV, PropsV,
                     SchemaV, SetV, Spread, StrV, Sym, Term, TupleV, V, is_ell, is_nil, kind_is,
                     kind_may_be)

CMP = {ast.Eq: "==", ast.NotEq: "!=", ast.Lt: "<", ast.LtE: "<=", ast.Gt: ">", ast.GtE: ">=",
       ast.Is: "is", ast.IsNot: "is not", ast.In: "in", ast.NotIn: "not in"}
BIN = {ast.Add: "+", ast.Sub: "-", ast.Mult: "*", ast.Div: "/", ast.FloorDiv: "//", ast.Mod: "%",
       ast.Pow: "**", ast.BitOr: "|", ast.BitAnd: "&", ast.BitXor: "^", ast.LShift: "<<",
       ast.RShift: ">>", ast.MatMult: "@"}


def annotation_kind(text: str) -> Optional[str]:
    t = text.replace("Nilable[", "").replace("Optional[", "").replace("TypeOrEllipsis[", "")
    t = t.strip("\"' ]")
    for pre, k in (("List", "list"), ("Dict", "dict"), ("Tuple", "tuple"), ("Set", "set"),
                   ("Sequence", "sequence")):
        if t.startswith(pre):
            return k
    base = t.split("[")[0].split(".")[-1]
    if base in ("int", "str", "float", "bool", "bytes", "list", "dict", "tuple", "set"):
        return base
    if base in ("UUID", "datetime", "date", "PathHolder", "ValidationResult"):
        return base
    if base.endswith("Schema"):
        return "Schema"
    return None


def _spec_fits(kind: Optional[str], spec: Optional[str]) -> bool:
    """Is format(x, spec) total for every x of this kind?  Decided for the standard presentation types only."""
    if spec is None or kind is None:
        return False
    if spec == "":
        return True
    ty = spec[-1]
    if ty in "bcdoxXn":
        return kind in ("int", "bool", "index")
    if ty in "eEfFgG%":
        return kind in ("int", "bool", "float", "index")
    if ty == "s":
        return kind == "str"
    if ty.isdigit() or ty in "<>^=+- ,_":
        return kind in ("int", "bool", "float", "str", "index")
    return False


_MUTABLE_GLOBALS: Dict[str, Any] = {}


def _mutable_globals(mod: Any) -> Any:
    """Names that some function of the module declares `global` and assigns."""
    key = f"{id(mod)}:{mod.name}"
    if key not in _MUTABLE_GLOBALS:
        out = set()
        tree = getattr(mod, "tree", None)
        if tree is not None:
            for fn in ast.walk(tree):
                if isinstance(fn, (ast.FunctionDef, ast.AsyncFunctionDef)):
                    declared = {n for st in ast.walk(fn) if isinstance(st, ast.Global) for n in st.names}
                    if not declared:
                        continue
                    for st in ast.walk(fn):
                        tgts = []
                        if isinstance(st, ast.Assign):
                            tgts = st.targets
                        elif isinstance(st, (ast.AugAssign, ast.AnnAssign)):
                            tgts = [st.target]
                        for t in tgts:
                            for x in ast.walk(t):
                                if isinstance(x, ast.Name) and x.id in declared:
                                    out.add(x.id)
        _MUTABLE_GLOBALS[key] = out
    return _MUTABLE_GLOBALS[key]


class ExprMixin:
    # -- these come from InterpCore / CallMixin
    prog: Any

    def eval(self, node: ast.expr, fr: Frame) -> V:
        m = getattr(self, "e_" + type(node).__name__, None)
        if m is None:
            self.emit("unsupported", node, what=type(node).__name__)
            return Term("opaque", (ast.unparse(node),), node=node)
        return m(node, fr)

    def e_Slice(self, node: ast.Slice, fr: Frame) -> V:
        """A slice in a store / delete target (`xs[a:b] = ...`): its bounds as a term."""
        lo = self.eval(node.lower, fr) if node.lower else Const(None)
        hi = self.eval(node.upper, fr) if node.upper else Const(None)
        st = self.eval(node.step, fr) if node.step else Const(None)
        return Term("sliceobj", (lo, hi, st), node=node)

    # ------------------------------------------------------------------ atoms
    def e_Constant(self, node: ast.Constant, fr: Frame) -> V:
        return Const(node.value)

    def e_Name(self, node: ast.Name, fr: Frame) -> V:
        return self.lookup_name(node.id, fr, node)

    def lookup_name(self, name: str, fr: Frame, node: Any = None) -> V:
        f: Optional[Frame] = fr
        while f is not None:
            if name in f.locals:
                return f.locals[name]
            f = f.closure
        return self.module_name(fr.module, name, node)

    def module_name(self, mod: Module, name: str, node: Any = None) -> V:
        ck = (mod.name, name)
        if ck in self._module_cache:
            return self._module_cache[ck]
        if name in _mutable_globals(mod):
            # re-bound by some function through `global`: what it holds when a call starts is whatever earlier calls
            # left there, not the value of the module-level initialiser
            v = Sym(f"global {mod.name}.{name}", None, ("global", mod.name, name))
            self._module_cache[ck] = v
            return v
        r = self.prog.resolve(mod.name, name) if name in mod.bindings else None
        v: V
        if r is None and name not in mod.bindings:
            if name == "Ellipsis":
                v = ELL                       # the builtin name of `...`
            elif hasattr(__import__("builtins"), name):
                v = Ext("builtins." + name)
            else:
                v = Term("unresolved", (name,), node=node)
        else:
            v = self.to_value(r, mod, name)
        if not isinstance(v, (Inst, ListV, DictV, SetV)):
            self._module_cache[ck] = v
        return v

    def to_value(self, r: Any, mod: Module, name: str) -> V:
        if isinstance(r, ClassInfo):
            return ClassV(r)
        if isinstance(r, FuncInfo):
            return FuncV(r)
        if isinstance(r, Module):
            return ModV(r)
        if isinstance(r, str):
            if r in ("niltype.Nil",):
                return NIL
            return Ext(r)
        if isinstance(r, tuple) and r and r[0] == "assign":
            _, m2, expr = r
            # module-level value: evaluate in module scope (constants, singletons)
            fr = Frame(None, m2, {})
            saved = self.stack
            self.stack = self.stack + [fr]
            try:
                v = self.eval(expr, fr)
            finally:
                self.stack = saved
            if isinstance(v, Inst):
                v.origin = f"global:{m2.name}.{name}"
            return v
        return Term("unresolved", (name,))

    # ------------------------------------------------------------------ containers
    def e_Tuple(self, node: ast.Tuple, fr: Frame) -> V:
        return TupleV(self._elts(node.elts, fr))

    def e_List(self, node: ast.List, fr: Frame) -> V:
        return ListV(self._elts(node.elts, fr))

    def e_Set(self, node: ast.Set, fr: Frame) -> V:
        return SetV(self._elts(node.elts, fr))

    def _elts(self, elts: List[ast.expr], fr: Frame) -> List[Any]:
        out: List[Any] = []
        for e in elts:
            if isinstance(e, ast.Starred):
                v = self.eval(e.value, fr)
                if isinstance(v, (ListV, TupleV)) and v.concrete():
                    out.extend(v.items)
                else:
                    out.append(Spread(v))
            else:
                out.append(self.eval(e, fr))
        return out

    def e_Dict(self, node: ast.Dict, fr: Frame) -> V:
        d = DictV([])
        for k, v in zip(node.keys, node.values):
            vv = self.eval(v, fr)
            if k is None:
                if isinstance(vv, DictV):
                    for it in vv.items:
                        if isinstance(it, Spread):
                            d.items.append(it)
                        else:
                            d.store(it[0], it[1])
                else:
                    d.items.append(Spread(vv))
            else:
                d.store(self.eval(k, fr), vv)
        return d

    def e_JoinedStr(self, node: ast.JoinedStr, fr: Frame) -> V:
        pieces: List[Any] = []
        for p in node.values:
            if isinstance(p, ast.Constant):
                pieces.append(str(p.value))
            elif isinstance(p, ast.FormattedValue):
                v = self.eval(p.value, fr)
                conv = {-1: "", 114: "r", 115: "s", 97: "a"}.get(p.conversion, "")
                if isinstance(v, Const) and isinstance(v.value, str) and conv == "":
                    pieces.append(v.value)
                elif isinstance(v, StrV) and conv == "":
                    pieces.extend(v.pieces)
                else:
                    if conv == "r" or (conv == "" and not isinstance(v, (Const, StrV))):
                        self.emit("format", node, value=v, conv=conv or "s")
                    self.render_partial(v, p)
                    pieces.append((v, conv))
                if p.format_spec is not None and conv == "":
                    # `{x:d}`: format(x, spec) raises ValueError / TypeError when the presentation type does not fit x's kind
                    spec = p.format_spec.values[0].value if (isinstance(p.format_spec, ast.JoinedStr) and len(p.format_spec.values) == 1
                                                             and isinstance(p.format_spec.values[0], ast.Constant)) else None
                    if not (isinstance(v, Const) and spec is not None and _spec_fits(type(v.value).__name__, spec)):
                        self.partial("format-spec", (ValueError, TypeError), p, operands=(v,), spec=spec)
        return StrV(pieces)

    def e_Starred(self, node: ast.Starred, fr: Frame) -> V:
        return Term("star", (self.eval(node.value, fr),), node=node)

    # ------------------------------------------------------------------ operators
    def e_UnaryOp(self, node: ast.UnaryOp, fr: Frame) -> V:
        v = self.eval(node.operand, fr)
        if isinstance(node.op, ast.Not):
            t = self.truth(v)
            if t is not None:
                return Const(not t)
            return Term("not", (v,), kind="bool", node=node)
        if isinstance(v, Const) and isinstance(v.value, (int, float)):
            if isinstance(node.op, ast.USub):
                return Const(-v.value)
            if isinstance(node.op, ast.UAdd):
                return Const(+v.value)
            if isinstance(node.op, ast.Invert) and isinstance(v.value, int):
                return Const(~v.value)
        if isinstance(node.op, ast.Invert) and isinstance(v, (SchemaV,)):
            return self.call_dunder(v, "__invert__", [], node)
        return Term("unary", (type(node.op).__name__, v), kind=v.kind, node=node)

    def e_BoolOp(self, node: ast.BoolOp, fr: Frame) -> V:
        is_and = isinstance(node.op, ast.And)
        last: V = Const(is_and)
        for i, e in enumerate(node.values):
            last = self.eval(e, fr)
            if i == len(node.values) - 1:
                break
            if getattr(self, "_generic_depth", 0) and self.truth(last) is None and isinstance(last, Term) and last.kind == "bool" \
                    and all(isinstance(x, (ast.Compare, ast.Call, ast.UnaryOp, ast.Name, ast.BoolOp)) for x in node.values[i + 1:]):
                # inside the once-evaluated body of a comprehension over a source that cannot be enumerated
                rest = [self.eval(x, fr) for x in node.values[i + 1:]]
                if all(isinstance(r_, V) and (r_.kind == "bool" or isinstance(r_, Const)) for r_ in rest):
                    ops = [last] + [r_ for r_ in rest if not (isinstance(r_, Const) and bool(r_.value) is is_and)]
                    if any(isinstance(r_, Const) and bool(r_.value) is not is_and for r_ in rest):
                        return Const(not is_and)
                    return ops[0] if len(ops) == 1 else Term("and" if is_and else "or", tuple(ops), kind="bool", node=node)
            t = self.decide(last, e)
            if is_and and not t:
                return last
            if (not is_and) and t:
                return last
        return last

    def e_IfExp(self, node: ast.IfExp, fr: Frame) -> V:
        c = self.eval(node.test, fr)
        if self.decide(c, node.test):
            return self.eval(node.body, fr)
        return self.eval(node.orelse, fr)

    def e_NamedExpr(self, node: ast.NamedExpr, fr: Frame) -> V:
        v = self.eval(node.value, fr)
        self.assign(node.target, v, fr, node)
        return v

    def e_Lambda(self, node: ast.Lambda, fr: Frame) -> V:
        return FuncV(node, None, fr)

    def e_BinOp(self, node: ast.BinOp, fr: Frame) -> V:
        a = self.eval(node.left, fr)
        b = self.eval(node.right, fr)
        return self.binop(node.op, a, b, node)

    def binop(self, op: ast.operator, a: V, b: V, node: Any) -> V:
        sym = BIN.get(type(op), "?")
        if isinstance(a, Const) and isinstance(b, Const):
            try:
                if sym == "**" and isinstance(b.value, int) and abs(b.value) > 4096:
                    raise OverflowError
                if sym == "*" and isinstance(a.value, (str, list)) and isinstance(b.value, int) and b.value > 10000:
                    raise OverflowError
                r = eval(f"x {sym} y", {"x": a.value, "y": b.value})  # constant folding only
                return Const(r)
            except Exception:
                pass
        if sym == "%" and isinstance(a, Const) and isinstance(a.value, str) and not isinstance(b, Const):
            import re as _re2
            specs = _re2.findall(r"%[rsd]", a.value)
            if len(specs) == 1 and a.value.count("%") == 1 and not isinstance(b, (TupleV, DictV)):
                # `fmt % x` with a non-tuple operand: a tuple value of x is UNPACKED by the operator
                head, tail = a.value.split(specs[0])
                self.emit("percent_format", node, fmt=a, operand=b)
                return StrV([head, (b, ("r" if specs[0] == "%r" else "") + "%"), tail])
        if sym in ("-", "&", "|", "^") and isinstance(a, SetV) and isinstance(b, (SetV, ListV)) and a.concrete() and b.concrete():
            ka = {x.key(): x for x in a.items}
            kb = {x.key(): x for x in b.items}
            if sym == "-":
                return SetV([v for k, v in ka.items() if k not in kb])
            if sym == "&":
                return SetV([v for k, v in ka.items() if k in kb])
            if sym == "|":
                return SetV(list(ka.values()) + [v for k, v in kb.items() if k not in ka])
            return SetV([v for k, v in ka.items() if k not in kb] + [v for k, v in kb.items() if k not in ka])
        if sym == "+":
            if isinstance(a, (StrV, Const)) and isinstance(b, (StrV, Const)) and \
                    (a.kind == "str" and b.kind == "str"):
                pa = a.pieces if isinstance(a, StrV) else [a.value]
                pb = b.pieces if isinstance(b, StrV) else [b.value]
                return StrV(list(pa) + list(pb))
            if (a.kind == "str" or isinstance(a, StrV)) and (b.kind == "str" or isinstance(b, StrV) or self.kind_of(b) == "str"):
                pa = a.pieces if isinstance(a, StrV) else ([a.value] if isinstance(a, Const) else [(a, "")])
                pb = b.pieces if isinstance(b, StrV) else ([b.value] if isinstance(b, Const) else [(b, "")])
                return StrV(list(pa) + list(pb))
            if isinstance(a, ListV) and isinstance(b, ListV):
                return ListV(a.items + b.items)
            if isinstance(a, TupleV) and isinstance(b, TupleV):
                return TupleV(a.items + b.items)
            if isinstance(a, TupleV):
                return TupleV(a.items + [Spread(b)])
            if isinstance(a, ListV):
                return ListV(a.items + [Spread(b)])
        if isinstance(a, (SchemaV,)) or (isinstance(a, Sym) and a.kind == "Schema"):
            d = {"+": "__add__", "|": "__or__", "%": "__mod__"}.get(sym)
            if d:
                return self.call_dunder(a, d, [b], node)
        if sym in ("/", "//", "%") and not (isinstance(b, Const) and b.value):
            if self.kind_of(a) != "str":
                self.partial("div", (ZeroDivisionError,), node, operands=(a, b))
        kind = None
        ka, kb = self.kind_of(a), self.kind_of(b)
        if ka == kb:
            kind = ka
        elif {ka, kb} <= {"int", "float", "bool"} and ka and kb:
            kind = "float" if "float" in (ka, kb) else "int"
        if sym == "/":
            kind = "float"
        if sym == "*" and {ka, kb} & {"str"} and ({ka, kb} - {"str"}) <= {"int", "bool"}:
            kind = "str"
        return Term("bin", (sym, a, b), kind=kind, node=node)

    def e_Compare(self, node: ast.Compare, fr: Frame) -> V:
        left = self.eval(node.left, fr)
        result: Optional[V] = None
        for op, rhs in zip(node.ops, node.comparators):
            right = self.eval(rhs, fr)
            r = self.compare(CMP[type(op)], left, right, node)
            if result is None:
                result = r
            else:
                # chained: a < b < c  ==  (a<b) and (b<c)
                t = self.truth(result)
                if t is False:
                    return result
                if t is True:
                    result = r
                else:
                    result = Term("and", (result, r), kind="bool", node=node)
            left = right
        assert result is not None
        return result

    def compare(self, op: str, a: V, b: V, node: Any) -> V:
        if op in ("is", "is not"):
            r = self._identity(a, b)
            if r is not None:
                return Const(r if op == "is" else not r)
            t = Term("is", (a, b), kind="bool", node=node)
            return t if op == "is" else Term("not", (t,), kind="bool", node=node)
        if op in ("in", "not in"):
            a = self.resolve(a)
            if isinstance(b, (SetV, DictV)) or self.kind_of(b) in ("set", "dict", "frozenset"):
                self.hash_partial(a, node, "membership test in a set / dict")
            r = self._contains(b, a)
            if r is None and isinstance(a, (Sym, Term)) and isinstance(b, DictV) and b.concrete() and b.pairs() \
                    and self.kind_of(a) in (None, "key") and self.known_fact(Term("in", (a, b)).key()) is None \
                    and (isinstance(a, Sym) or a.op in ("getitem", "unpack", "mcall", "slice", "join", "attr")):
                # membership of a symbolic key in a concrete token table: case split on WHICH token it equals
                ao = getattr(a, "origin", None)
                src = ao[1] if ao and ao[0] in ("key", "elem") and len(ao) > 1 and isinstance(ao[1], V) else None
                a_uid = getattr(a, "uid", None) or ("T:" + a.key())
                no_ell = "ellipsis" in self.notkinds.get(a_uid, []) or \
                    (src is not None and self.known_fact(f"in(..., {src.key()})") is False)
                cands = [k for k, _ in b.pairs() if not (is_ell(k) and no_ell)
                         and not (src is not None and self.known_fact(f"in({k.key()}, {src.key()})") is False)]
                t = Term("in", (a, b), kind="bool", node=node)
                c = self.ch.choose(len(cands) + 1, t.key())
                if c < len(cands):
                    self.aliases[a_uid] = cands[c]
                    self.add_fact(t.key(), t, True)
                    self.emit("cond", node, term=t, value=True, unified=cands[c])
                    r = True
                else:
                    self.add_fact(t.key(), t, False)
                    self.emit("cond", node, term=t, value=False)
                    r = False
                return Const(r if op == "in" else not r)
            if r is not None:
                if not isinstance(a, Const):
                    self.emit("decided", node, term=Term("in", (a, b), kind="bool", node=node), value=r)
                return Const(r if op == "in" else not r)
            t = Term("in", (a, b), kind="bool", node=node)
            if self.kind_of(b) not in ("str", "list", "dict", "tuple", "set", "sequence") and \
                    not isinstance(b, (ListV, TupleV, DictV, SetV, StrV)):
                self.partial("contains", (TypeError,), node, operands=(a, b))
            return t if op == "in" else Term("not", (t,), kind="bool", node=node)
        if isinstance(a, Const) and isinstance(b, Const):
            try:
                return Const(bool(eval(f"x {op} y", {"x": a.value, "y": b.value})))
            except Exception:
                pass
        if op in ("==", "!=") and isinstance(a, (PropsV, SchemaV)) and getattr(a, "cls", None) is not None:
            m = a.cls.lookup("__eq__" if op == "==" else "__ne__")
            model = getattr(self, "model", None)
            if isinstance(a, SchemaV) and model is not None and op == "==" and "__eq__" in model.overrides:
                fn = model.overrides["__eq__"][0]
                if isinstance(fn, FuncInfo):
                    return self._call_func(FuncV(fn, None), [a, b], {}, node)
            if m is not None:
                return self._invoke(FuncV(m, a), [b], {}, node)
        if op in ("==", "!="):
            r2 = self._equal(a, b)
            if r2 is not None:
                return Const(r2 if op == "==" else not r2)
            t = Term("eq", tuple(sorted((a, b), key=lambda v: v.key())), kind="bool", node=node)
            self.emit("compare", node, op=op, a=a, b=b)
            return t if op == "==" else Term("not", (t,), kind="bool", node=node)
        # ordering: canonical form lt(a,b) / le(a,b)
        ka, kb = self.kind_of(a), self.kind_of(b)
        num = {"int", "float", "bool"}
        if not (ka and kb and ((ka in num and kb in num) or kind_may_be(ka, kb))):
            self.partial("order", (TypeError,), node, operands=(a, b), cmp=op)
        self.emit("compare", node, op=op, a=a, b=b)
        if op == "<":
            return Term("lt", (a, b), kind="bool", node=node)
        if op == ">":
            return Term("lt", (b, a), kind="bool", node=node)
        if op == "<=":
            return Term("not", (Term("lt", (b, a), kind="bool", node=node),), kind="bool", node=node)
        return Term("not", (Term("lt", (a, b), kind="bool", node=node),), kind="bool", node=node)

    def _identity(self, a: V, b: V) -> Optional[bool]:
        if isinstance(a, Ext) and isinstance(b, Ext) and a.name == b.name:
            return True             # one external object under one name (`native_type is UUID` for a table row holding UUID)
        if isinstance(a, Ext) and isinstance(b, Ext) and (a.name.startswith("builtins.") or b.name.startswith("builtins.")) \
                and a.name.split(".")[-1] != b.name.split(".")[-1] and not is_nil(a) and not is_nil(b):
            return False            # a builtin (`list`) is no other named object (`int`, `uuid.UUID`)
        for x, y in ((a, b), (b, a)):
            if isinstance(x, (Ext, ClassV, FuncV)) and isinstance(y, Const) and y.value is None and (
                    not isinstance(x, Ext) or x.name.split(".")[0] in ("builtins", "operator", "functools", "itertools", "math", "re",
                                                                      "string", "uuid", "datetime", "copy", "typing")):
                return False        # a function / class (`measure=len`) is not None
        if isinstance(a, ClassV) and isinstance(b, ClassV):
            return a.cls.qualname == b.cls.qualname
        if (isinstance(a, ClassV) and isinstance(b, Ext)) or (isinstance(a, Ext) and isinstance(b, ClassV)):
            return False            # a class of the package is not an external object
        for x, y in ((a, b), (b, a)):
            if isinstance(x, Sym) and x.origin and x.origin[0] == "sentinel":
                return getattr(y, "uid", None) == x.uid
        for x, y in ((a, b), (b, a)):
            if is_nil(y):
                if is_nil(x):
                    return True
                if isinstance(x, Sym):
                    if x.maybe_nil:
                        return None
                    return False
                if isinstance(x, Term):
                    if x.op in ("pget",):
                        return None
                    return False
                return False
            if isinstance(y, Const) and y.value is None:
                if isinstance(x, Const):
                    return x.value is None
                if isinstance(x, (ListV, DictV, TupleV, SetV, StrV, SchemaV, Inst, PropsV, ClassV, FuncV, ExcV, ModV)):
                    return False
                if isinstance(x, Sym) and x.kind not in (None, "NoneType"):
                    return False
                if isinstance(x, Term) and self.kind_of(x) in ("list", "dict", "tuple", "set", "str", "int", "float", "bool"):
                    return False
                return None
            if isinstance(y, Const) and isinstance(y.value, bool):
                if isinstance(x, Const):
                    return x.value is y.value
                return None
        if isinstance(a, Const) and isinstance(b, Const):
            return a.value is b.value or (a.value == b.value and type(a.value) is type(b.value)
                                          and isinstance(a.value, (int, str)))
        if isinstance(a, ClassV) and isinstance(b, ClassV):
            return a.cls.qualname == b.cls.qualname
        if hasattr(a, "uid") and hasattr(b, "uid") and not isinstance(a, Sym):
            return a.uid == b.uid  # type: ignore
        if isinstance(a, Sym) and isinstance(b, Sym) and a.uid == b.uid:
            return True
        return None

    def _equal(self, a: V, b: V) -> Optional[bool]:
        a, b = self.resolve(a), self.resolve(b)
        if is_ell(a) or is_ell(b):
            x = b if is_ell(a) else a
            if is_ell(x):
                return True
            k = self.kind_of(x)
            if k is not None and (k == "Schema" or k.endswith("Schema")) and not isinstance(x, Const) \
                    and "__eq__" in getattr(getattr(self, "model", None), "overrides", {}):
                # `schema == ...` is the package's overridden Schema.__eq__: "does `...` validate against the schema" - true
                # for a bare schema.any; also reached as the reflected operand of `... == schema`
                return None
            if k is not None and k != "ellipsis":
                return False
            if isinstance(x, Sym) and "ellipsis" in self.notkinds.get(x.uid, []):
                return False
            return None
        if isinstance(a, Sym) and isinstance(b, Sym) and a.uid == b.uid:
            return True
        if isinstance(a, Sym) and isinstance(b, Sym) and a.origin and b.origin and \
                a.origin[0] in ("dictkey", "member") and b.origin[0] == a.origin[0]:
            return a.key() == b.key()       # tokens of an abstract table are pairwise distinct
        if isinstance(a, ClassV) and isinstance(b, ClassV):
            return a.cls.qualname == b.cls.qualname
        if isinstance(a, Ext) and isinstance(b, Ext):
            return a.name == b.name
        return None

    HASHABLE_KINDS = ("str", "int", "float", "bool", "bytes", "NoneType", "ellipsis", "type", "UUID", "datetime", "date",
                      "key", "function", "frozenset", "Schema", "optional")

    def hashable(self, x: Any, depth: int = 0) -> bool:
        """Is hashing `x` known not to raise TypeError?  (keys taken out of a dict / set, constants, values of a scalar
        kind, classes, tuples of such; anything else - an arbitrary caller value, a tuple around one - may be unhashable)"""
        if depth > 6 or not isinstance(x, V):
            return False
        x = self.resolve(x)
        if isinstance(x, Const):
            try:
                hash(x.value)
                return True
            except TypeError:
                return False
        if isinstance(x, (ClassV, Ext, FuncV, Inst, SchemaV)) or is_ell(x) or is_nil(x):
            return True
        if isinstance(x, StrV):
            return True
        if isinstance(x, TupleV):
            return x.concrete() and all(self.hashable(i, depth + 1) for i in x.items)
        if isinstance(x, (ListV, DictV, SetV)):
            return False
        k = self.kind_of(x)
        if k in self.HASHABLE_KINDS or (k is not None and k.endswith("Schema")):
            return True
        o = getattr(x, "origin", None)
        if o and o[0] in ("key", "dictkey", "member", "prop", "attr", "range", "index", "field"):
            return True          # a key of a mapping / a declared token / a declared prop / an index
        if o and o[0] == "elem" and len(o) > 1 and isinstance(o[1], V) and (
                self.kind_of(o[1]) in ("set", "dict", "str", "frozenset")
                or (isinstance(o[1], Term) and o[1].op in ("keys", "set", "frozenset"))
                or (isinstance(o[1], Term) and o[1].op == "call" and o[1].args and o[1].args[0] in ("builtins.set", "builtins.frozenset"))):
            return True          # a member of a set / a key view / a str
        if isinstance(x, Term) and x.op in ("call",) and x.args and x.args[0] in ("builtins.type", "builtins.id", "builtins.len",
                                                                                  "builtins.str", "builtins.repr", "builtins.hash"):
            return True
        if isinstance(x, Term) and x.op in ("len", "isinstance", "lt", "eq", "in", "is", "not", "join", "format", "attr"):
            return True
        if isinstance(x, Term) and x.op in ("getitem", "unpack", "mcall", "slice") and self.kind_of(x) is None:
            # parts of strings (split / partition / slices of a str) are strings
            base = x.args[0] if x.args else None
            while isinstance(base, Term) and base.op in ("getitem", "unpack", "mcall", "slice") and base.args:
                if base.op == "mcall" and len(base.args) > 1 and base.args[1] in ("split", "rsplit", "partition", "rpartition", "splitlines"):
                    return self.kind_of(base.args[0]) == "str"
                base = base.args[0]
            return isinstance(base, V) and self.kind_of(base) == "str"
        return False

    def hash_partial(self, key: Any, node: Any, what: str) -> None:
        if isinstance(key, V) and not self.hashable(key):
            self.partial("hash", (TypeError,), node, operands=(key,), what=what)

    def _contains(self, container: V, item: V) -> Optional[bool]:
        if isinstance(container, Const) and isinstance(item, Const):
            try:
                return item.value in container.value
            except Exception:
                return None
        if isinstance(container, (ListV, TupleV, SetV)):
            unknown = not container.concrete()
            for it in container.items:
                if isinstance(it, Spread):
                    continue
                e = self._equal(it, item)
                if e is None and isinstance(it, Const) and isinstance(item, Const):
                    e = it.value == item.value
                if e is True:
                    return True
                if e is None:
                    if it.key() == item.key():
                        return True
                    unknown = True
            return None if unknown else False
        if isinstance(container, DictV):
            unknown = not container.concrete()
            for k, _ in container.pairs():
                e = self._equal(k, item)
                if e is None and isinstance(k, Const) and isinstance(item, Const):
                    e = k.value == item.value
                if e is True or (e is None and k.key() == item.key()):
                    return True
                if e is None:
                    unknown = True
            return None if unknown else False
        return None

    # ------------------------------------------------------------------ attribute / subscript
    def e_Attribute(self, node: ast.Attribute, fr: Frame) -> V:
        recv = self.eval(node.value, fr)
        return self.getattr(recv, self._mangle(node.attr, fr), node)

    def e_Subscript(self, node: ast.Subscript, fr: Frame) -> V:
        recv = self.eval(node.value, fr)
        if isinstance(node.slice, ast.Slice):
            lo = self.eval(node.slice.lower, fr) if node.slice.lower else Const(None)
            hi = self.eval(node.slice.upper, fr) if node.slice.upper else Const(None)
            st = self.eval(node.slice.step, fr) if node.slice.step else Const(None)
            if isinstance(recv, (ListV, TupleV)) and recv.concrete() and all(isinstance(x, Const) for x in (lo, hi, st)):
                items = recv.items[slice(lo.value, hi.value, st.value)]  # type: ignore
                return ListV(items) if isinstance(recv, ListV) else TupleV(items)
            if isinstance(recv, Const) and isinstance(recv.value, (str, tuple)) and all(isinstance(x, Const) for x in (lo, hi, st)):
                return Const(recv.value[slice(lo.value, hi.value, st.value)])  # type: ignore
            return Term("slice", (recv, lo, hi, st), kind=self.kind_of(recv), node=node)
        idx = self.eval(node.slice, fr)
        return self.getitem(recv, idx, node)

    def getitem(self, recv: V, idx: V, node: Any) -> V:
        idx = self.resolve(idx)
        recv = self._unwrap1(recv)
        if isinstance(recv, (ListV, TupleV)) and recv.concrete() and len(recv.items) == 2 and isinstance(idx, Term) \
                and idx.kind == "bool" and idx.op in ("lt", "eq", "not", "in", "is", "isinstance", "and", "or"):
            return recv.items[1 if self.decide(idx, node) else 0]       # pair[<comparison>]: the two-way choice it decides
        if isinstance(recv, (ListV, TupleV)) and isinstance(idx, Const) and isinstance(idx.value, int):
            n = len(recv.items)
            if recv.concrete():
                if -n <= idx.value < n:
                    return recv.items[idx.value]
                return self.implicit_raise(IndexError, node, op="getitem", operands=(recv, idx))
        if isinstance(recv, Term) and recv.op == "range" and all(isinstance(a, Const) and isinstance(a.value, int) for a in recv.args) \
                and isinstance(idx, Const) and isinstance(idx.value, int):
            try:
                return Const(range(*[a.value for a in recv.args])[idx.value])
            except Exception as e:
                return self.implicit_raise(type(e), node, op="getitem", operands=(recv, idx))
        if isinstance(recv, Const) and isinstance(idx, Const):
            try:
                return Const(recv.value[idx.value])
            except Exception as e:
                return self.implicit_raise(type(e), node, op="getitem", operands=(recv, idx))
        if isinstance(recv, DictV):
            v = recv.lookup(idx)
            if v is not None:
                return v
            # a {False: a, True: b} table indexed by a comparison: the two-way choice the comparison decides
            if recv.concrete() and isinstance(idx, Term) and idx.kind == "bool" and idx.op in ("lt", "eq", "not", "in", "is", "isinstance", "and", "or") \
                    and sorted((repr(k.value) for k, _ in recv.pairs() if isinstance(k, Const) and isinstance(k.value, bool))) == ["False", "True"] \
                    and len(recv.pairs()) == 2:
                want = self.decide(idx, node)
                for k, val in recv.pairs():
                    if isinstance(k, Const) and k.value is want:
                        return val
            fac = getattr(recv, "default_factory", None)
            if fac is not None and recv.concrete() and all(self._equal(k, idx) is False or k.key() != idx.key()
                                                           for k, _ in recv.pairs()):
                # defaultdict: a missing key is created (distinct symbolic keys are kept apart, which is the
                # finest partition: entries that may coincide at run time stay separate lists here)
                nv: V = {"list": ListV([]), "dict": DictV([]), "set": SetV([]), "int": Const(0)}[fac]
                recv.store(idx, nv)
                return nv
            if recv.concrete():
                # maybe equal to some key we cannot compare
                if all(self._equal(k, idx) is False or (isinstance(k, Const) and isinstance(idx, Const))
                       for k, _ in recv.pairs()):
                    return self.implicit_raise(KeyError, node, op="getitem", operands=(recv, idx))
        if isinstance(recv, (ClassV, Ext)) or (isinstance(recv, Term) and recv.op == "typing"):
            return Term("typing", (recv, idx), node=node)
        base = recv
        while isinstance(base, Term) and base.op in ("sorted", "list", "reversed") and base.args and isinstance(base.args[0], V):
            base = base.args[0]        # an element of sorted(X) / list(X) is an element of X
        if isinstance(base, Term) and base.op == "listcomp" and isinstance(base.args[0], V):
            self.partial("getitem", (IndexError,), node, operands=(recv, idx))
            return base.args[0]
        if isinstance(recv, SchemaV) or (isinstance(recv, Sym) and recv.kind == "Schema"):
            return self.call_dunder(recv, "__getitem__", [idx], node)
        k = self.kind_of(recv)
        excs: Tuple[type, ...]
        if k in ("list", "str", "tuple", "bytes", "sequence"):
            excs = (IndexError,)
        elif k == "dict":
            excs = (KeyError,)
        elif k == "PathHolder":
            excs = ()
        else:
            excs = (IndexError, KeyError, TypeError)
        if is_ell(recv) or is_nil(recv):
            return self.implicit_raise(TypeError, node, op="getitem", operands=(recv, idx))
        ek = self._elem_kind(recv) if k in ("list", "tuple", "sequence") and self.kind_of(idx) in ("int", None) \
            and not isinstance(idx, Term) else None
        res = Term("getitem", (recv, idx), kind="PathHolder" if k == "PathHolder" else ek, node=node)
        if excs:
            self.partial("getitem", excs, node, operands=(recv, idx))
        if k == "PathHolder":
            self.emit("path_index", node, recv=recv, index=idx)
        return res

    def getattr(self, recv: V, attr: str, node: Any) -> V:
        if isinstance(recv, ModV):
            r = self.prog.resolve(recv.mod.name, attr)
            if r is None:
                return Term("unresolved", (f"{recv.mod.name}.{attr}",), node=node)
            return self.to_value(r, recv.mod, attr)
        if isinstance(recv, Ext):
            if is_nil(recv):
                return self.implicit_raise(AttributeError, node, op="getattr", operands=(recv, Const(attr)))
            full = f"{recv.name}.{attr}"
            if full.startswith(("string.", "sys.float_info.", "sys.maxsize")):
                # stdlib data constants (not d42 code): fold
                try:
                    import string as _string
                    import sys as _sys
                    obj: Any = {"string": _string, "sys": _sys}[full.split(".")[0]]
                    for part in full.split(".")[1:]:
                        obj = getattr(obj, part)
                    if isinstance(obj, (str, int, float)):
                        return Const(obj)
                except Exception:
                    pass
            return Ext(full)
        if is_ell(recv):
            return self.implicit_raise(AttributeError, node, op="getattr", operands=(recv, Const(attr)))
        if isinstance(recv, SchemaV):
            if attr == "__class__":
                if recv.cls is not None:
                    return ClassV(recv.cls)
                return Term("attr", (recv.cls_of, "__class__"), kind="type", node=node)
            if attr == "_props":
                return recv.props
            if recv.cls is not None:
                return self.class_attr(recv.cls, recv, attr, node)
            if attr == "props":
                return recv.props
        if isinstance(recv, PropsV):
            if attr == "_registry":
                if not recv.open:
                    return DictV([(Const(k), v) for k, v in recv.vals.items()])
                return Term("registry", (recv,), kind="dict", node=node)
            if attr == "__class__":
                return ClassV(recv.cls)
            if attr in ("update", "set", "get"):
                return Term("bound", (recv, attr), node=node)
            return self.class_attr(recv.cls, recv, attr, node)
        if isinstance(recv, Inst):
            if attr in recv.attrs:
                return recv.attrs[attr]
            if attr == "__class__":
                return ClassV(recv.cls)
            if attr == "__dict__":
                return Term("attr", (recv, "__dict__"), kind="dict", node=node)
            return self.class_attr(recv.cls, recv, attr, node)
        if isinstance(recv, ClassV):
            if attr == "__name__":
                return Const(recv.cls.name)
            m = recv.cls.lookup(attr)
            if m is not None:
                if any(isinstance(d, ast.Name) and d.id == "classmethod" for d in m.node.decorator_list):
                    return FuncV(m, recv)
                return FuncV(m, None)
            a = recv.cls.lookup_attr(attr)
            if a is not None:
                ci, expr = a
                return self.eval(expr, Frame(None, ci.module, {}))
            if attr == "__bases__":
                return TupleV([ClassV(b) if isinstance(b, ClassInfo) else Ext(str(b)) for b in recv.cls.bases])
            if attr == "__dict__":
                return Term("attr", (recv, "__dict__"), kind="dict", node=node)
            return Term("attr", (recv, attr), node=node)
        if isinstance(recv, FuncV):
            if attr == "__name__":
                n = getattr(recv.func, "name", "<lambda>")
                return Const(n)
            return Term("attr", (recv, attr), node=node)
        if isinstance(recv, ExcV):
            return Term("attr", (recv, attr), node=node)
        if isinstance(recv, (ListV, DictV, SetV, TupleV, StrV, Const)):
            return Term("bound", (recv, attr), node=node)
        # symbolic receivers
        k = self.kind_of(recv)
        if k is not None and k.endswith("Schema"):
            cls = getattr(recv, "cls", None)
            if attr == "props":
                ptype = None
                return Term("attr", (recv, "props"), kind="Props", node=node)
            if attr == "__class__":
                return Term("attr", (recv, "__class__"), kind="type", node=node)
        if k is None and isinstance(recv, (Sym, Term)):
            self.partial("getattr", (AttributeError,), node, operands=(recv, Const(attr)))
        elif k is not None and isinstance(recv, (Sym, Term)):
            self.emit("attr_on_kind", node, recv=recv, rkind=k, attr=attr)
        kind = None
        if attr == "version" and k == "UUID":
            kind = None         # Optional[int]: None for UUIDs whose variant is not RFC 4122 (UUID(int=0), NCS, Microsoft)
        if k == "Props":
            # a prop getter on a props object of unknown class: kind from the getter annotations of all Props classes
            model = getattr(self, "model", None)
            if model is not None:
                ks = {annotation_kind(s_.prop_annot[attr]) for s_ in model.schemas.values() if attr in s_.prop_annot}
                if len(ks) == 1:
                    kind = ks.pop()
        return Term("attr", (recv, attr), kind=kind, node=node)

    def class_attr(self, ci: ClassInfo, recv: V, attr: str, node: Any) -> V:
        model = getattr(self, "model", None)
        if model is not None and attr in model.overrides and ci.is_subclass_of(model.schema_base):
            fn = model.overrides[attr][0]
            own = ci.lookup(attr)
            if isinstance(fn, FuncInfo) and (own is None or own.cls is None or own.cls.qualname == model.schema_base.qualname):
                return FuncV(fn, recv)
        m = ci.lookup(attr)
        if m is not None:
            decos = [d.id for d in m.node.decorator_list if isinstance(d, ast.Name)]
            if "property" in decos:
                return self._invoke(FuncV(m, recv), [], {}, node)
            if "staticmethod" in decos:
                return FuncV(m, None)
            if "classmethod" in decos:
                return FuncV(m, ClassV(ci))
            return FuncV(m, recv)
        a = ci.lookup_attr(attr)
        if a is None:
            for c3 in ci.mro():         # private names are stored unmangled in the class body
                pre3 = "_" + c3.name.lstrip("_") + "__"
                if attr.startswith(pre3) and ("__" + attr[len(pre3):]) in c3.attrs:
                    a = (c3, c3.attrs["__" + attr[len(pre3):]])
                    break
        if a is not None:
            c2, expr = a
            # `name = functools.partialmethod(method, *args)` in the class body: the method with leading arguments bound
            from .flow import dotted as _dotted
            if isinstance(expr, ast.Call) and not expr.keywords and expr.args and isinstance(expr.args[0], ast.Name) \
                    and (_dotted(self.prog, c2.module, expr.func) or "").endswith("partialmethod"):
                target = c2.lookup(expr.args[0].id) or c2.lookup("_" + c2.name.lstrip("_") + expr.args[0].id)
                if target is not None:
                    fv = FuncV(target, recv)
                    fv.pre_args = [self.eval(x, Frame(None, c2.module, {})) for x in expr.args[1:]]   # type: ignore[attr-defined]
                    return fv
            val_ = self.eval(expr, Frame(None, c2.module, {}))
            if isinstance(val_, Term) and val_.op == "property" and val_.args and isinstance(val_.args[0], FuncV) \
                    and not isinstance(recv, ClassV):
                # `name = property(getter)` in the class body: reading it on an instance calls the getter
                return self._invoke(FuncV(val_.args[0].func, None, val_.args[0].closure), [recv], {}, node)
            return val_
        # __getattr__ fallbacks defined by d42 raise AttributeError
        ga = ci.lookup("__getattr__")
        if ga is not None:
            self.partial("getattr", (AttributeError,), node, operands=(recv, Const(attr)), definite=True)
        return Term("attr", (recv, attr), node=node)

    # ------------------------------------------------------------------ comprehensions
    def _comp(self, node: Any, fr: Frame, make: str) -> V:
        gens = node.generators
        inner = Frame(fr.func, fr.module, {}, fr.cls, fr.self_val, closure=fr)
        results: List[Any] = []
        opaque = [False]
        all_conds: List[V] = []
        first_iter: List[V] = []

        def rec(gi: int) -> None:
            if gi == len(gens):
                if make == "dict":
                    results.append((self.eval(node.key, inner), self.eval(node.value, inner)))
                else:
                    results.append(self.eval(node.elt, inner))
                return
            g = gens[gi]
            it = self.eval(g.iter, inner)
            if gi == 0:
                first_iter.append(it)
            concrete = self._enumerable(it)
            if getattr(self, "comp_as_loop", False):
                concrete = True      # requested by a rule that found iteration-carried state in a comprehension body
            if make == "dict" and len(gens) == 1:
                # a dict comprehension is evaluated exactly like the loop `d = {}; for ..: d[k] = v` (bounded unrolling of a
                # symbolic source), so that both spellings of a table transformer yield the same abstract table
                concrete = True
            if concrete:
                for item in self.iterate(it, node):
                    self.assign(g.target, item, inner, node)
                    if all(self.decide(self.eval(c, inner), c) for c in g.ifs):
                        rec(gi + 1)
            else:
                # abstract body evaluation: once, with a generic element, for its events
                opaque[0] = True
                elem = self.generic_element(it, node)
                self.assign(g.target, elem, inner, node)
                # the body is evaluated ONCE for a member that stands for all of them: `a and b` over that member is a
                # term, not a decision taken for the whole source
                self._generic_depth = getattr(self, "_generic_depth", 0) + 1
                try:
                    conds = [self.eval(c, inner) for c in g.ifs]
                    all_conds.extend(conds)
                    self.emit("comp_iter", node, iterable=it, conds=conds, make=make)
                    rec(gi + 1)
                finally:
                    self._generic_depth -= 1

        n_ev = len(self.events)
        uid_mark = next(_uid_counter)
        rec(0)
        if opaque[0]:
            # iteration-carried state: the body (evaluated once, for a generic member) wrote to a container that
            # already existed before the comprehension - later members see what earlier ones left there
            for e in self.events[n_ev:]:
                if e.kind == "write":
                    tgt = e.data.get("target")
                    if isinstance(tgt, (ListV, DictV, SetV)) and getattr(tgt, "uid", uid_mark + 1) < uid_mark:
                        self.emit("comp_stateful", node, target=tgt)
                        break
        if not opaque[0]:
            if make == "list":
                return ListV(results)
            if make == "set":
                return SetV(results)
            if make == "dict":
                return DictV(results)
            return ListV(results)  # generator consumed later
        elt = results[0] if results else Const(None)
        src = self.eval(gens[0].iter, inner) if False else None
        kind = {"list": "list", "set": "set", "dict": "dict", "gen": "generator"}[make]
        extra = (TupleV(all_conds),) if all_conds else ()
        if len(gens) > 1 and not extra:
            extra = (TupleV([]),)      # several generators: the result is not one-for-one with the first source
        if make != "dict":
            t_ = Term(make + "comp", (elt, Term("src", (first_iter[0],))) + extra, kind=kind, node=node)
            t_.elem_kind = self.kind_of(elt) if isinstance(elt, V) else None  # type: ignore
            return t_
        if make == "dict":
            return Term("dictcomp", (elt[0], elt[1], Term("src", (first_iter[0],))) + extra, kind=kind, node=node)
        return Term(make + "comp", (elt, Term("src", (first_iter[0],))) + extra, kind=kind, node=node)

    def _enumerable(self, it: V) -> bool:
        """Can the members of `it` be listed one by one (as opposed to a symbolic source)?"""
        return bool(isinstance(it, (ListV, TupleV, SetV, DictV)) and it.concrete() or
                    (isinstance(it, Const) and isinstance(it.value, (str, tuple, bytes))) or
                    (isinstance(it, Term) and it.op in ("items", "enumerate") and it.args
                     and isinstance(it.args[0], (ListV, TupleV, SetV, DictV)) and it.args[0].concrete()))

    def _iter_key(self, gens: Any, inner: Frame) -> V:
        try:
            return Term("src", (ast.unparse(gens[0].iter),))
        except Exception:
            return Const(None)

    def e_ListComp(self, node: ast.ListComp, fr: Frame) -> V:
        return self._comp(node, fr, "list")

    def e_SetComp(self, node: ast.SetComp, fr: Frame) -> V:
        return self._comp(node, fr, "set")

    def e_DictComp(self, node: ast.DictComp, fr: Frame) -> V:
        return self._comp(node, fr, "dict")

    def e_GeneratorExp(self, node: ast.GeneratorExp, fr: Frame) -> V:
        return self._comp(node, fr, "gen")

    def e_Yield(self, node: ast.Yield, fr: Frame) -> V:
        self.emit("yield", node, value=self.eval(node.value, fr) if node.value else Const(None))
        return Const(None)

    def e_YieldFrom(self, node: ast.YieldFrom, fr: Frame) -> V:
        self.emit("yield", node, value=self.eval(node.value, fr), from_=True)
        return Const(None)

    def e_Await(self, node: ast.Await, fr: Frame) -> V:
        return self.eval(node.value, fr)

    # ------------------------------------------------------------------ iteration
    def _tag_elem(self, sym: Sym, src: V) -> Sym:
        nk = self.elem_notkinds.get(src.key())
        if nk:
            self.notkinds.setdefault(sym.uid, []).extend(nk)
        return sym

    def generic_element(self, it: V, node: Any) -> V:
        if isinstance(it, Term) and it.op in ("listcomp", "gencomp", "setcomp") and isinstance(it.args[0], V):
            return it.args[0]
        if isinstance(it, Term) and it.op == "items" and isinstance(it.args[0], Term) and it.args[0].op == "dictcomp":
            return TupleV([it.args[0].args[0], it.args[0].args[1]])
        if isinstance(it, Term) and it.op == "enumerate" and isinstance(it.args[0], Term) and it.args[0].op in ("listcomp",):
            src = it.args[0]
            return TupleV([Sym(f"i@{src.key()[:40]}", "int", ("index", src)), src.args[0]])
        if isinstance(it, Term) and it.op == "enumerate":
            src = it.args[0]
            idx = Sym(f"i@{src.key()}", "int", ("index", src))
            return TupleV([idx, Sym(f"elem@{src.key()}", self._elem_kind(src), ("elem", src, idx))])
        if isinstance(it, Term) and it.op == "items":
            src = it.args[0]
            k = self._tag_elem(Sym(f"key@{src.key()}", None, ("key", src)), src)
            return TupleV([k, Sym(f"val@{src.key()}", None, ("val", src, k))])
        if isinstance(it, Term) and it.op == "range":
            return Sym(f"i@{it.key()}", "int", ("range", it))
        return self._tag_elem(Sym(f"elem@{it.key()}", self._elem_kind(it), ("elem", it, None)), it)

    @staticmethod
    def _unwrap1(x: V) -> V:
        """[*<comprehension>] / {*<comprehension>} (what a summarised accumulation loop leaves) is that comprehension."""
        if isinstance(x, (ListV, SetV)) and len(x.items) == 1 and isinstance(x.items[0], Spread) \
                and isinstance(x.items[0].value, Term) and x.items[0].value.op == ("listcomp" if isinstance(x, ListV) else "setcomp"):
            return x.items[0].value
        return x

    def _elem_kind(self, src: V) -> Optional[str]:
        src = self._unwrap1(src)
        k = self.kind_of(src)
        if k == "str":
            return "str"
        ek = getattr(src, "elem_kind", None)
        if ek is None and isinstance(src, Term) and src.op == "call" and src.args and src.args[0] == "itertools.count" \
                and all(self.kind_of(a) == "int" for a in src.args[1:] if isinstance(a, V)):
            return "int"
        return ek

    def _nth_of_endless(self, src: V, k: int) -> Optional[V]:
        """k-th member of an endless source: itertools.count([start[, step]]) or a comprehension / map over one"""
        if isinstance(src, Term) and src.op == "call" and src.args and src.args[0] == "itertools.count":
            a = [x for x in src.args[1:] if isinstance(x, V)]
            st = a[0] if a else Const(0)
            step = a[1] if len(a) > 1 else Const(1)
            if isinstance(st, Const) and isinstance(step, Const):
                return Const(st.value + k * step.value)
            return None
        if isinstance(src, Term) and src.op == "gencomp" and len(src.args) == 2 and isinstance(src.args[1], Term) and src.args[1].op == "src":
            inner = src.args[1].args[0]
            nth = self._nth_of_endless(inner, k)
            if nth is None:
                return None
            ek = f"elem@{inner.key()}"

            def sub(t: Any) -> Any:
                if isinstance(t, V) and t.key() == ek:
                    return nth
                if isinstance(t, Term):
                    args2 = tuple(sub(a) for a in t.args)
                    if t.op == "bin" and len(args2) == 3 and isinstance(args2[1], Const) and isinstance(args2[2], Const) \
                            and args2[0] in ("+", "-", "*"):
                        x, y = args2[1].value, args2[2].value
                        return Const(x + y if args2[0] == "+" else x - y if args2[0] == "-" else x * y)
                    kind2 = t.kind
                    if kind2 is None and t.op == "bin" and len(args2) == 3 and all(
                            isinstance(a, V) and self.kind_of(a) in ("int", "bool") for a in args2[1:]):
                        kind2 = "int"
                    return Term(t.op, args2, kind2, t.node)
                return t
            return sub(src.args[0])
        return None

    def iterate(self, it: V, node: Any) -> Iterator[V]:
        it = self._unwrap1(it)
        if isinstance(it, (ListV, TupleV, SetV)) and it.concrete():
            yield from list(it.items)
            return
        if isinstance(it, Term) and it.op == "call" and it.args and it.args[0] == "builtins.zip" and len(it.args) >= 3:
            # zip(<n known members>, <endless source>...): exactly n pairs
            srcs = [self._unwrap1(a) if isinstance(a, V) else a for a in it.args[1:]]
            known = [a for a in srcs if isinstance(a, (ListV, TupleV)) and a.concrete()]
            if known:
                n_ = min(len(a.items) for a in known)
                rows = []
                for k in range(n_):
                    row = []
                    for a in srcs:
                        if isinstance(a, (ListV, TupleV)) and a.concrete():
                            row.append(a.items[k])
                        else:
                            row.append(self._nth_of_endless(a, k) if isinstance(a, V) else None)
                    rows.append(row)
                if all(x is not None for r_ in rows for x in r_):
                    for r_ in rows:
                        yield TupleV(list(r_))
                    return
        if isinstance(it, DictV) and it.concrete():
            for k, _ in list(it.pairs()):
                yield k
            return
        if isinstance(it, (ListV, TupleV)) and any(isinstance(x, Spread) for x in it.items):
            # [a, *X, b] iterates a, then the members of X, then b
            for x in list(it.items):
                if isinstance(x, Spread):
                    yield from self.iterate(x.value, node)
                else:
                    yield x
            return
        if isinstance(it, Const) and isinstance(it.value, (str, tuple, list, bytes)):
            for x in it.value:
                yield Const(x)
            return
        if isinstance(it, Term) and it.op == "enumerate" and isinstance(it.args[0], (ListV, TupleV)) \
                and it.args[0].concrete():
            start = it.args[1].value if len(it.args) > 1 and isinstance(it.args[1], Const) else 0
            for i, x in enumerate(list(it.args[0].items)):
                yield TupleV([Const(i + start), x])
            return
        if isinstance(it, Term) and it.op == "items" and isinstance(it.args[0], DictV) and it.args[0].concrete():
            for k, v in list(it.args[0].pairs()):
                yield TupleV([k, v])
            return
        if isinstance(it, Term) and it.op == "range" and all(isinstance(a, Const) for a in it.args):
            vals = [a.value for a in it.args]
            if all(isinstance(x, int) for x in vals) and len(range(*vals)) <= 64:
                for i in range(*vals):
                    yield Const(i)
                return
        # prefix of known items followed by unknown rest
        known: List[V] = []
        if isinstance(it, (ListV, TupleV)):
            known = [x for x in it.items if not isinstance(x, Spread)]
        k = self.kind_of(it)
        if k is not None and k not in ("list", "str", "dict", "tuple", "set", "sequence", "generator",
                                       "bytes", "iterator", "PathHolder") and not isinstance(it, Term):
            self.partial("iter", (TypeError,), node, operands=(it,))
        elif k is None and isinstance(it, Sym):
            self.partial("iter", (TypeError,), node, operands=(it,))
        for x in known:
            yield x
        n = 0
        src = it.args[0] if isinstance(it, Term) and it.op in ("enumerate", "items", "keys", "values") and it.args else it
        emp = self.known_fact(f"eq(0, len({src.key()}))") if not known else None
        if emp is True:
            self.emit("loop", node, iterable=it, iterations=0, bounded=False)
            return
        limit = self.unroll_of(it) if getattr(self, "unroll_of", None) else self.unroll
        while n < limit:
            if n == 0 and emp is False:
                c = 1          # a length test on this path already established that the iterable is not empty
            else:
                c = self.ch.choose(2, f"iter:{it.key()}:{n}")
            if c == 0:
                break
            yield self._nth_element(it, n)
            n += 1
        self.emit("loop", node, iterable=it, iterations=n, bounded=(n >= limit))

    def _nth_element(self, it: V, n: int) -> V:
        if isinstance(it, Term) and it.op in ("listcomp", "gencomp", "setcomp") and isinstance(it.args[0], V):
            return it.args[0]
        if isinstance(it, Term) and it.op == "items" and isinstance(it.args[0], Term) and it.args[0].op == "dictcomp":
            return TupleV([it.args[0].args[0], it.args[0].args[1]])
        if isinstance(it, Term) and it.op == "enumerate" and isinstance(it.args[0], Term) and it.args[0].op in ("listcomp",):
            src = it.args[0]
            return TupleV([Sym(f"i{n}@{src.key()[:40]}", "int", ("index", src, n)), src.args[0]])
        if isinstance(it, Term) and it.op == "enumerate":
            src = it.args[0]
            idx = Sym(f"i{n}@{src.key()}", "int", ("index", src, n))
            return TupleV([idx, Sym(f"elem{n}@{src.key()}", self._elem_kind(src), ("elem", src, idx))])
        if isinstance(it, Term) and it.op == "items":
            src = it.args[0]
            k = self._tag_elem(Sym(f"key{n}@{src.key()}", None, ("key", src, n)), src)
            return TupleV([k, Sym(f"val{n}@{src.key()}", None, ("val", src, k))])
        if isinstance(it, Term) and it.op == "range":
            return Sym(f"i{n}@{it.key()}", "int", ("range", it, n))
        return self._tag_elem(Sym(f"elem{n}@{it.key()}", self._elem_kind(it), ("elem", it, n)), it)

    def _list_extend(self, lst: ListV, rhs: V, node: Any) -> None:
        if isinstance(rhs, (ListV, TupleV)):
            lst.items.extend(rhs.items)
        else:
            lst.items.append(Spread(rhs))

    # ------------------------------------------------------------------ partial operations
    def render_partial(self, v: V, node: Any) -> None:
        """str()/repr()/format() of a value: total except for ints beyond sys.get_int_max_str_digits() (CPython >= 3.11
        raises ValueError), alone or inside a container.  Only analyses that opt in (`int_str_limit`) see it."""
        if getattr(self, "int_str_limit", False) and not isinstance(v, (Const, StrV)):
            self.partial("render", (ValueError,), node, operands=(v,))

    def partial(self, op: str, excs: Tuple[Any, ...], node: Any, definite: bool = False, **data: Any) -> None:
        """An operation that may raise.  Fork only if some enclosing handler could catch it."""
        ev = self.emit("partial", node, op=op, excs=excs, definite=definite, **data)
        for e in excs:
            if self.may_be_caught(e):
                c = self.ch.choose(2, f"raises:{op}:{getattr(e, '__name__', e)}:{getattr(node, 'lineno', 0)}")
                if c == 1:
                    ev.data["raised"] = e
                    raise _Raise(ExcV(e, [], node), node, implicit=True)

    def implicit_raise(self, exc: Any, node: Any, **data: Any) -> V:
        self.emit("partial", node, excs=(exc,), definite=True, raised=exc, **data)
        raise _Raise(ExcV(exc, [], node), node, implicit=True)
