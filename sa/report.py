"""Obligations, findings, known findings, evidence files and the exit protocol."""
from __future__ import annotations

import hashlib
import json
import os
import sys
import time
from dataclasses import dataclass, field
from typing import Any, Dict, List, Optional

VERIF = os.path.dirname(os.path.dirname(os.path.abspath(__file__)))

HOLDS, VIOLATED, UNDECIDED, NOTE = "HOLDS", "VIOLATED", "UNDECIDED", "NOTE"


@dataclass
class Obligation:
    rule: str                 # e.g. C03.PATH-ARG
    construct: str            # qualified construct + slot values (no line numbers): the finding key
    status: str
    site: str = ""            # file:line (diagnostic only)
    detail: str = ""          # derivation or reason
    witness: str = ""         # abstract/concrete counterexample for VIOLATED
    nontrivial: bool = False  # needed a path-sensitive derivation

    @property
    def key(self) -> str:
        return f"{self.rule} | {self.construct}"


class Run:
    def __init__(self, prop: str, tier: str) -> None:
        self.prop = prop
        self.tier = tier
        self.obs: List[Obligation] = []
        self.floors: Dict[str, int] = {}
        self.analysed: Dict[str, Any] = {}
        self.trusted: List[str] = []
        self.assumptions: List[str] = []
        self.explanation = ""
        self.rule_text = ""
        self.t0 = time.time()
        self.extra: Dict[str, Any] = {}
        self.exhaustive: Optional[bool] = None

    # ---------------------------------------------------------------- recording
    def ob(self, rule: str, construct: str, status: str, site: str = "", detail: str = "",
           witness: str = "", nontrivial: bool = False) -> Obligation:
        o = Obligation(f"{self.prop}.{rule}" if not rule.startswith(self.prop) else rule,
                       construct, status, site, detail, witness, nontrivial)
        self.obs.append(o)
        return o

    def holds(self, rule: str, construct: str, site: str = "", detail: str = "", nontrivial: bool = False) -> None:
        self.ob(rule, construct, HOLDS, site, detail, nontrivial=nontrivial)

    def violated(self, rule: str, construct: str, site: str = "", detail: str = "", witness: str = "",
                 nontrivial: bool = True) -> None:
        self.ob(rule, construct, VIOLATED, site, detail, witness, nontrivial)

    def undecided(self, rule: str, construct: str, site: str = "", detail: str = "") -> None:
        self.ob(rule, construct, UNDECIDED, site, detail)

    def note(self, rule: str, construct: str, site: str = "", detail: str = "") -> None:
        self.ob(rule, construct, NOTE, site, detail)

    def floor(self, rule: str, n: int) -> None:
        self.floors[f"{self.prop}.{rule}"] = n

    def count(self, rule: str, statuses: Any = (HOLDS, VIOLATED)) -> int:
        r = f"{self.prop}.{rule}"
        return sum(1 for o in self.obs if o.rule == r and o.status in statuses)


def load_known() -> Dict[str, Any]:
    p = os.path.join(VERIF, "known_findings.json")
    if not os.path.exists(p):
        return {"known": [], "fixed": []}
    with open(p) as f:
        return json.load(f)


def finish(run: Run, seed: int = 0) -> int:
    """Print the report, write evidence + replay files, return the exit code."""
    from .loader import AnalysisError
    known = load_known()
    known_keys = {k["key"]: k for k in known.get("known", []) if k.get("property") == run.prop}

    viol = [o for o in run.obs if o.status == VIOLATED]
    # de-duplicate by key
    seen: Dict[str, Obligation] = {}
    for o in viol:
        seen.setdefault(o.key, o)
    new = [o for k, o in seen.items() if k not in known_keys]
    old = [o for k, o in seen.items() if k in known_keys]
    stale = [k for k in known_keys if k not in seen]

    counts = {s: sum(1 for o in run.obs if o.status == s) for s in (HOLDS, VIOLATED, UNDECIDED, NOTE)}
    print(f"[{run.prop}] tier={run.tier} obligations={len(run.obs)} holds={counts[HOLDS]} "
          f"violated={counts[VIOLATED]} undecided={counts[UNDECIDED]} notes={counts[NOTE]}")
    byrule: Dict[str, Dict[str, int]] = {}
    for o in run.obs:
        byrule.setdefault(o.rule, {}).setdefault(o.status, 0)
        byrule[o.rule][o.status] += 1
    for r in sorted(byrule):
        fl = run.floors.get(r)
        print(f"  {r:34s} " + " ".join(f"{s}={n}" for s, n in sorted(byrule[r].items()))
              + (f"  (floor {fl})" if fl else ""))
    for o in run.obs:
        if o.status == UNDECIDED:
            print(f"  UNDECIDED {o.key} @ {o.site}: {o.detail}")
    for o in run.obs:
        if o.status == NOTE:
            print(f"  NOTE {o.key} @ {o.site}: {o.detail}")
    for o in old:
        print(f"KNOWN-FINDING: property={run.prop} {known_keys[o.key].get('what', o.key)} [{o.key} @ {o.site}]")
    for k in stale:
        print(f"  note: known finding no longer derived (repaired?): {k}")

    ev_dir = os.path.join(VERIF, "evidence")
    if os.environ.get("SA_NO_EVIDENCE"):
        # ad-hoc runs against scratch copies (tools/seedcheck.py) must not overwrite the committed evidence
        # (one shared directory, overwritten by every ad-hoc run, so that such runs do not pile up under /tmp)
        import tempfile
        v = os.environ["SA_NO_EVIDENCE"]
        ev_dir = v if os.path.isabs(v) else os.path.join(tempfile.gettempdir(), "sa_ev_adhoc")
    os.makedirs(os.path.join(ev_dir, "replay"), exist_ok=True)
    for o in new:
        h = hashlib.sha1(o.key.encode()).hexdigest()[:10]
        rp = os.path.join(ev_dir, "replay", f"{run.prop}-{h}.json")
        with open(rp, "w") as f:
            json.dump({"property": run.prop, "rule": o.rule, "construct": o.construct, "site": o.site,
                       "detail": o.detail, "witness": o.witness, "key": o.key}, f, indent=1)
        print(f"  VIOLATED {o.key}\n    at {o.site}\n    {o.detail}" + (f"\n    witness: {o.witness}" if o.witness else ""))
        print(f"VIOLATION property={run.prop} replay={rp}")

    # vacuity guard: a rule whose decided instances fall below the floor confirmed by hand has lost its subject.
    # A run that found new violations reports them (exit 1); only a would-be PASS is turned into exit 2.
    if not new:
        for rule, n in run.floors.items():
            got = sum(1 for o in run.obs if o.rule == rule and o.status in (HOLDS, VIOLATED))
            if got < n:
                und = sum(1 for o in run.obs if o.rule == rule and o.status == UNDECIDED)
                raise AnalysisError(f"rule {rule}: only {got} decided instances (+{und} undecided), floor is {n}")

    distinct_nontrivial = len({o.key for o in run.obs if o.nontrivial and o.status in (HOLDS, VIOLATED)})
    samples = []
    per_rule_seen: Dict[str, int] = {}
    for o in run.obs:
        if per_rule_seen.get(o.rule, 0) < 3 and o.status in (HOLDS, VIOLATED):
            per_rule_seen[o.rule] = per_rule_seen.get(o.rule, 0) + 1
            samples.append({"rule": o.rule, "construct": o.construct, "status": o.status,
                            "site": o.site, "derivation": o.detail[:400]})
    decided = counts[HOLDS] + counts[VIOLATED]
    coverage: Dict[str, Any] = {
        "explanation": run.explanation,
        "obligations": len([o for o in run.obs if o.status != NOTE]),
        "discharged": counts[HOLDS],
        "undecided": counts[UNDECIDED],
        "violated": counts[VIOLATED],
        "notes": counts[NOTE],
        "evaluations": max(decided, 1),
        "distinct_nontrivial": distinct_nontrivial,
        "rule": run.rule_text,
        "samples": samples,
        "per_rule": byrule,
        "floors": run.floors,
        "analysed": run.analysed,
        "known_findings": [o.key for o in old],
        "undecided_list": [{"key": o.key, "site": o.site, "why": o.detail} for o in run.obs if o.status == UNDECIDED][:50],
        "notes_list": [{"key": o.key, "site": o.site, "why": o.detail} for o in run.obs if o.status == NOTE][:50],
        "trusted_base": run.trusted,
        "checker_cmd": f"/venv/bin/python -m sa check {run.prop} --tier {run.tier}",
    }
    if run.exhaustive is not None:
        coverage["exhaustive"] = run.exhaustive
    coverage.update(run.extra)
    evidence = {
        "property_id": run.prop,
        "tier": run.tier,
        "seed": seed,
        "level": "other",
        "coverage": coverage,
        "assumptions": run.assumptions,
        "wall_s": round(time.time() - run.t0, 3),
        "violations": len(new),
    }
    with open(os.path.join(ev_dir, f"{run.prop}.json"), "w") as f:
        json.dump(evidence, f, indent=1, default=str)
    return 1 if new else 0
