"""Flow-insensitive / intraprocedural helpers shared by the AST-level rules."""
from __future__ import annotations

import ast
from typing import Any, Dict, Iterable, Iterator, List, Optional, Set, Tuple

from .loader import ClassInfo, FuncInfo, Module, Program


def parents(root: ast.AST) -> Dict[ast.AST, ast.AST]:
    out: Dict[ast.AST, ast.AST] = {}
    for n in ast.walk(root):
        for c in ast.iter_child_nodes(n):
            out[c] = n
    return out


def dotted(prog: Program, mod: Module, expr: ast.expr, local_imports: Optional[Dict[str, str]] = None) -> Optional[str]:
    """External dotted name of an expression (`random.choice`, `uuid.uuid4`, `datetime.datetime.utcnow`)
    or the qualname of a d42 definition; None if it is not a module-level reference."""
    if isinstance(expr, ast.Name) and local_imports and expr.id in local_imports:
        return local_imports[expr.id]
    if isinstance(expr, ast.Attribute) and local_imports:
        base = dotted(prog, mod, expr.value, local_imports)
        if base is not None and isinstance(expr.value, ast.Name) and expr.value.id in local_imports:
            return f"{base}.{expr.attr}"
    r = prog.resolve_expr(mod, expr)
    if isinstance(r, str):
        return r
    if isinstance(r, (ClassInfo, FuncInfo)):
        return r.qualname
    if isinstance(r, Module):
        return r.name
    if isinstance(expr, ast.Name) and expr.id not in mod.bindings:
        import builtins
        if hasattr(builtins, expr.id):
            return "builtins." + expr.id
    return None


def function_local_imports(fn: ast.AST) -> Dict[str, str]:
    out: Dict[str, str] = {}
    for n in ast.walk(fn):
        if isinstance(n, ast.Import):
            for a in n.names:
                out[a.asname or a.name.split(".")[0]] = a.name if a.asname else a.name.split(".")[0]
        elif isinstance(n, ast.ImportFrom) and n.level == 0:
            for a in n.names:
                out[a.asname or a.name] = f"{n.module}.{a.name}"
    return out


def self_attr_classes(prog: Program, ci: ClassInfo) -> Dict[str, ClassInfo]:
    """self.<attr> -> d42 class, from `self.x = param` with annotated param or `self.x = Cls(...)` in __init__."""
    out: Dict[str, ClassInfo] = {}
    for c in reversed(ci.mro()):
        init = c.methods.get("__init__")
        if init is None:
            continue
        ann: Dict[str, Any] = {}
        a = init.node.args
        for p in list(a.posonlyargs) + list(a.args) + list(a.kwonlyargs):
            if p.annotation is not None:
                r = prog.resolve_expr(c.module, _strip_optional(p.annotation))
                if isinstance(r, ClassInfo):
                    ann[p.arg] = r
        for n in ast.walk(init.node):
            if isinstance(n, ast.Assign) and len(n.targets) == 1:
                t = n.targets[0]
                if isinstance(t, ast.Attribute) and isinstance(t.value, ast.Name) and t.value.id == "self":
                    for v in ast.walk(n.value):
                        if isinstance(v, ast.Name) and v.id in ann:
                            out[t.attr] = ann[v.id]
                        if isinstance(v, ast.Call):
                            r = prog.resolve_expr(c.module, v.func)
                            if isinstance(r, ClassInfo):
                                out.setdefault(t.attr, r)
    return out


def _strip_optional(ann: ast.expr) -> ast.expr:
    if isinstance(ann, ast.Subscript) and isinstance(ann.value, ast.Name) and ann.value.id in ("Optional", "Nilable"):
        return ann.slice
    return ann


def resolve_call(prog: Program, fi: FuncInfo, call: ast.Call,
                 param_classes: Optional[Dict[str, ClassInfo]] = None) -> Any:
    """Resolve the callee of a call inside `fi`: FuncInfo | ClassInfo | dotted str | None."""
    f = call.func
    mod = fi.module
    if isinstance(f, ast.Attribute):
        v = f.value
        if isinstance(v, ast.Name) and v.id == "self" and fi.cls is not None:
            m = fi.cls.lookup(f.attr)
            if m is not None:
                return m
        if isinstance(v, ast.Attribute) and isinstance(v.value, ast.Name) and v.value.id == "self" and fi.cls is not None:
            ac = self_attr_classes(prog, fi.cls).get(v.attr)
            if ac is not None:
                m = ac.lookup(f.attr)
                if m is not None:
                    return m
        if isinstance(v, ast.Name) and param_classes and v.id in param_classes:
            m = param_classes[v.id].lookup(f.attr)
            if m is not None:
                return m
    li = function_local_imports(fi.node)
    d = dotted(prog, mod, f, li)
    if d is not None:
        if d in prog.functions:
            return prog.functions[d]
        if d in prog.classes:
            return prog.classes[d]
        return d
    return None


def call_closure(prog: Program, roots: Iterable[FuncInfo], extra_classes: Iterable[ClassInfo] = ()) -> List[FuncInfo]:
    """Functions reachable from roots through resolved calls (methods of visited classes included via self.*)."""
    seen: Dict[str, FuncInfo] = {}
    todo = list(roots)
    for c in extra_classes:
        for m in c.methods.values():
            todo.append(m)
    while todo:
        f = todo.pop()
        if f.qualname in seen:
            continue
        seen[f.qualname] = f
        for n in ast.walk(f.node):
            if isinstance(n, ast.Call):
                r = resolve_call(prog, f, n)
                if isinstance(r, FuncInfo):
                    todo.append(r)
                elif isinstance(r, ClassInfo):
                    init = r.lookup("__init__")
                    if init is not None:
                        todo.append(init)
    return list(seen.values())


def norm(node: ast.AST) -> str:
    return ast.unparse(node)
