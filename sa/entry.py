"""Entry-point transparency, shared by every property that is stated in terms of d42.validate(schema, value):
the module-level function must be nothing but schema.__accept__(<module validator>, value=value, **kwargs)."""
from __future__ import annotations

from typing import Any, Dict, List

from .engine import Interp, kwargs_spread
from .loader import Program
from .model import Model
from .report import Run
from .values import Inst, Sym, V

ENTRIES = {
    "validate": ("d42.validation.validate", "Validator", ("value",)),
    "generate": ("d42.generation.generate", "Generator", ()),
    "substitute": ("d42.substitution.substitute", "Substitutor", ("value",)),
    "represent": ("d42.representation.represent", "Representor", ()),
}


def entry_transparent(run: Run, prog: Program, model: Model, which: str = "validate", rule: str = "VALIDATE-ENTRY") -> None:
    """Every returning path of the entry function dispatches the given schema to the module-level visitor with the
    caller's arguments unchanged and returns exactly what that dispatch returned: no fast path, no remembered result, no
    post-processing.  (A path that answers without the visitor answers from something else than the schema and the
    value - a cache, an equality shortcut - and the property's "validate(...)" is no longer the validator's verdict.)"""
    q, vis, names = ENTRIES[which]
    f = prog.func(q)
    it = Interp(prog, model, unroll=1)
    syms: Dict[str, V] = {}

    def runx(i: Interp) -> V:
        s = Sym("schema", "Schema", ("param", "schema"))
        s.cls = None
        syms["schema"] = s
        args: List[V] = [s]
        for n in names:
            syms[n] = Sym(n, None, ("param", n))
            args.append(syms[n])
        return i.call_function(f, args, kwargs_spread("extra"))
    paths = it.run_paths(runx)
    construct = f"d42.{which}(): nothing but schema.__accept__(<module-level {vis}>, ...)"
    probs: List[str] = []
    ok = 0
    for p in paths:
        if p.outcome == "limit":
            probs.append("path limit")
            continue
        acc = [e for e in p.events if e.kind == "accept" and e.data["recv"].key() == syms["schema"].key()]
        cond = [("" if b else "not ") + k for k, _, b in p.facts][-1:]
        when = f" (when {cond[0][:70]})" if cond else ""
        if p.outcome == "return":
            if not acc:
                probs.append(f"a path returns {p.value.key()[:40] if p.value is not None else None} without dispatching the schema to the visitor{when}")
                continue
            e = acc[-1]
            v = e.data.get("visitor")
            if not (isinstance(v, Inst) and v.cls.is_subclass_of(model.visitors[vis])):
                probs.append(f"the visitor is not the module-level {vis}")
            for n in names:
                got = e.data["kwargs"].get(n)
                if got is None or got.key() != syms[n].key():
                    probs.append(f"`{n}` is not passed through unchanged")
            res = e.data.get("result")
            if res is not None and p.value is not None and p.value.key() != res.key():
                probs.append(f"the function returns {p.value.key()[:40]}, not what the visitor returned{when}")
            ok += 1
        elif p.outcome == "raise" and not p.implicit:
            probs.append(f"the entry function itself raises{when}")
    if probs:
        run.violated(rule, construct, f.loc, "; ".join(sorted(set(probs)))[:400],
                     witness=f"d42.{which}(s, v) differs from s.__accept__(visitor, ...): a stale, shortcut or altered answer")
    elif ok:
        run.holds(rule, construct, f.loc, f"{ok} path(s): the dispatch result is returned unchanged", nontrivial=True)
    else:
        run.undecided(rule, construct, f.loc, "no returning path")
