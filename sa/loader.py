"""L0 - loader and resolver.

Parses every *.py under <repo>/d42 from the working tree on each run and builds
module / binding / class / function tables with re-export chasing.  Nothing from the
analysed package is imported or executed.
"""
from __future__ import annotations

import ast
import os
import sys
from dataclasses import dataclass, field
from typing import Any, Dict, Iterator, List, Optional, Set, Tuple


class AnalysisError(Exception):
    """The analysis lost its subject (anchor vanished, unparsable tree...)."""


@dataclass
class Binding:
    kind: str                 # def | class | import | from | assign
    node: Any = None          # FunctionDef / ClassDef / value expr
    module: str = ""          # for import/from: target module name
    name: str = ""            # for from: imported name
    stmt: Any = None


@dataclass(repr=False)
class Module:
    name: str
    path: str
    src: str
    tree: ast.Module
    is_pkg: bool
    bindings: Dict[str, Binding] = field(default_factory=dict)
    all_: Optional[List[str]] = None
    toplevel: List[ast.stmt] = field(default_factory=list)   # statements live under this interpreter

    def __repr__(self) -> str:
        return f"<module {self.name}>"


@dataclass(repr=False)
class FuncInfo:
    qualname: str
    module: Module
    node: ast.FunctionDef
    cls: Optional["ClassInfo"] = None

    def __repr__(self) -> str:
        return f"<func {self.qualname}>"

    @property
    def name(self) -> str:
        return self.node.name

    @property
    def loc(self) -> str:
        return f"{self.module.path}:{self.node.lineno}"

    def __hash__(self) -> int:
        return hash(self.qualname)

    def __eq__(self, o: object) -> bool:
        return isinstance(o, FuncInfo) and o.qualname == self.qualname


@dataclass(repr=False)
class ClassInfo:
    qualname: str
    module: Module
    node: ast.ClassDef
    bases: List[Any] = field(default_factory=list)       # ClassInfo | str (external dotted)
    base_subscripts: List[Any] = field(default_factory=list)  # for Schema[XProps]: ClassInfo | str | None
    methods: Dict[str, FuncInfo] = field(default_factory=dict)
    attrs: Dict[str, ast.expr] = field(default_factory=dict)
    body: List[ast.stmt] = field(default_factory=list)

    def __repr__(self) -> str:
        return f"<class {self.qualname}>"

    @property
    def name(self) -> str:
        return self.node.name

    @property
    def loc(self) -> str:
        return f"{self.module.path}:{self.node.lineno}"

    def mro(self) -> List["ClassInfo"]:
        out: List[ClassInfo] = []
        seen = set()

        def walk(c: "ClassInfo") -> None:
            if c.qualname in seen:
                return
            seen.add(c.qualname)
            out.append(c)
            for b in c.bases:
                if isinstance(b, ClassInfo):
                    walk(b)
        walk(self)
        return out

    def ext_bases(self) -> List[str]:
        out = []
        for c in self.mro():
            for b in c.bases:
                if isinstance(b, str):
                    out.append(b)
        return out

    def lookup(self, name: str) -> Optional[FuncInfo]:
        for c in self.mro():
            if name in c.methods:
                return c.methods[name]
            pre = "_" + c.name.lstrip("_") + "__"
            if name.startswith(pre) and ("__" + name[len(pre):]) in c.methods:
                return c.methods["__" + name[len(pre):]]
        return None

    def lookup_attr(self, name: str) -> Optional[Tuple["ClassInfo", ast.expr]]:
        for c in self.mro():
            if name in c.attrs:
                return c, c.attrs[name]
        return None

    def is_subclass_of(self, other: "ClassInfo") -> bool:
        return any(c.qualname == other.qualname for c in self.mro())

    def __hash__(self) -> int:
        return hash(self.qualname)

    def __eq__(self, o: object) -> bool:
        return isinstance(o, ClassInfo) and o.qualname == self.qualname


def _static_test(test: ast.expr) -> Optional[bool]:
    """Decide module/class level `if` tests that depend only on the interpreter version or
    TYPE_CHECKING (treated as true: names bound there are needed to resolve annotations)."""
    if isinstance(test, ast.Name) and test.id == "TYPE_CHECKING":
        return True
    if isinstance(test, ast.Compare) and len(test.ops) == 1:
        left, right = test.left, test.comparators[0]
        if (isinstance(left, ast.Attribute) and isinstance(left.value, ast.Name)
                and left.value.id == "sys" and left.attr == "version_info"
                and isinstance(right, ast.Tuple)
                and all(isinstance(e, ast.Constant) for e in right.elts)):
            tup = tuple(e.value for e in right.elts)  # type: ignore
            vi = tuple(sys.version_info[:len(tup)])
            op = test.ops[0]
            if isinstance(op, ast.GtE):
                return vi >= tup
            if isinstance(op, ast.Gt):
                return vi > tup
            if isinstance(op, ast.Lt):
                return vi < tup
            if isinstance(op, ast.LtE):
                return vi <= tup
    return None


def live_statements(body: List[ast.stmt]) -> Iterator[ast.stmt]:
    """Flatten statically decidable `if` statements (version / TYPE_CHECKING)."""
    for st in body:
        if isinstance(st, ast.If):
            t = _static_test(st.test)
            if t is True:
                yield from live_statements(st.body)
                continue
            if t is False:
                yield from live_statements(st.orelse)
                continue
        yield st


class Program:
    def __init__(self, repo: str, package: str = "d42") -> None:
        self.repo = os.path.abspath(repo)
        self.package = package
        self.modules: Dict[str, Module] = {}
        self.classes: Dict[str, ClassInfo] = {}
        self.functions: Dict[str, FuncInfo] = {}
        self._load()
        self._bind()
        self._build_classes()

    # ---------------------------------------------------------------- loading
    def _load(self) -> None:
        root = os.path.join(self.repo, self.package)
        if not os.path.isdir(root):
            raise AnalysisError(f"package directory {root} not found")
        for dirpath, dirnames, filenames in os.walk(root):
            dirnames[:] = sorted(d for d in dirnames if d != "__pycache__")
            for fn in sorted(filenames):
                if not fn.endswith(".py"):
                    continue
                path = os.path.join(dirpath, fn)
                rel = os.path.relpath(path, self.repo)
                parts = rel[:-3].split(os.sep)
                is_pkg = parts[-1] == "__init__"
                if is_pkg:
                    parts = parts[:-1]
                name = ".".join(parts)
                with open(path, encoding="utf-8") as f:
                    src = f.read()
                try:
                    tree = ast.parse(src, filename=path)
                except SyntaxError as e:
                    raise AnalysisError(f"cannot parse {path}: {e}")
                self.modules[name] = Module(name, rel, src, tree, is_pkg)

    def _abs_module(self, mod: Module, level: int, target: Optional[str]) -> str:
        if level == 0:
            return target or ""
        parts = mod.name.split(".")
        if not mod.is_pkg:
            parts = parts[:-1]
        if level > 1:
            parts = parts[:-(level - 1)]
        if target:
            parts = parts + target.split(".")
        return ".".join(parts)

    def _bind(self) -> None:
        for mod in self.modules.values():
            mod.toplevel = list(live_statements(mod.tree.body))
            for st in mod.toplevel:
                self._bind_stmt(mod, st)
            # names bound only under `if TYPE_CHECKING:` exist for annotations, not at run time
            mod.typing_only = set()           # type: ignore[attr-defined]
            runtime: Set[str] = set()
            for st in mod.tree.body:
                if isinstance(st, ast.If) and isinstance(st.test, ast.Name) and st.test.id == "TYPE_CHECKING":
                    for x in st.body:
                        if isinstance(x, (ast.Import, ast.ImportFrom)):
                            for a in x.names:
                                mod.typing_only.add(a.asname or a.name.split(".")[0])      # type: ignore[attr-defined]
                        elif isinstance(x, (ast.FunctionDef, ast.ClassDef)):
                            mod.typing_only.add(x.name)                                    # type: ignore[attr-defined]
                    for x in st.orelse:
                        for n in ast.walk(x):
                            if isinstance(n, ast.alias):
                                runtime.add(n.asname or n.name.split(".")[0])
                            elif isinstance(n, ast.Name) and isinstance(n.ctx, ast.Store):
                                runtime.add(n.id)
                else:
                    for n in ast.walk(st):
                        if isinstance(n, ast.alias):
                            runtime.add(n.asname or n.name.split(".")[0])
                        elif isinstance(n, (ast.FunctionDef, ast.ClassDef)) and n in mod.tree.body:
                            runtime.add(n.name)
                        elif isinstance(n, ast.Name) and isinstance(n.ctx, ast.Store):
                            runtime.add(n.id)
            mod.typing_only -= runtime        # type: ignore[attr-defined]

    def runtime_bound(self, modname: str, name: str, _depth: int = 0) -> bool:
        """Is `name` bound in module `modname` when the module is imported at run time (following re-exports)?"""
        mod = self.modules.get(modname)
        if mod is None or _depth > 12:
            return True         # outside the analysed package: not judged here
        if name in getattr(mod, "typing_only", ()):
            return False
        b = mod.bindings.get(name)
        if b is not None and b.kind == "from" and b.module in self.modules and b.name:
            return self.runtime_bound(b.module, b.name, _depth + 1)
        return True

    def _bind_stmt(self, mod: Module, st: ast.stmt) -> None:
        b = mod.bindings
        if isinstance(st, (ast.FunctionDef, ast.AsyncFunctionDef)):
            b[st.name] = Binding("def", st, stmt=st)
        elif isinstance(st, ast.ClassDef):
            b[st.name] = Binding("class", st, stmt=st)
        elif isinstance(st, ast.Import):
            for a in st.names:
                if a.asname:
                    b[a.asname] = Binding("import", module=a.name, stmt=st)
                else:
                    b[a.name.split(".")[0]] = Binding("import", module=a.name.split(".")[0], stmt=st)
        elif isinstance(st, ast.ImportFrom):
            target = self._abs_module(mod, st.level, st.module)
            for a in st.names:
                b[a.asname or a.name] = Binding("from", module=target, name=a.name, stmt=st)
        elif isinstance(st, ast.Assign):
            for t in st.targets:
                if isinstance(t, (ast.Tuple, ast.List)) and all(isinstance(e, ast.Name) for e in t.elts):
                    # A, B = x, y   /   A, B = range(2): each name is bound to its component
                    same = isinstance(st.value, (ast.Tuple, ast.List)) and len(st.value.elts) == len(t.elts) \
                        and not any(isinstance(e, ast.Starred) for e in st.value.elts)
                    for i, e in enumerate(t.elts):
                        comp = st.value.elts[i] if same else ast.copy_location(
                            ast.Subscript(value=st.value, slice=ast.Constant(i), ctx=ast.Load()), st.value)
                        ast.fix_missing_locations(comp)
                        b[e.id] = Binding("assign", comp, stmt=st)      # type: ignore[attr-defined]
                if isinstance(t, ast.Name):
                    b[t.id] = Binding("assign", st.value, stmt=st)
                    if t.id == "__all__":
                        try:
                            mod.all_ = list(ast.literal_eval(st.value))
                        except Exception:
                            pass
        elif isinstance(st, ast.AnnAssign):
            if isinstance(st.target, ast.Name) and st.value is not None:
                b[st.target.id] = Binding("assign", st.value, stmt=st)

    # ---------------------------------------------------------------- classes / functions
    def _build_classes(self) -> None:
        for mod in self.modules.values():
            for st in mod.toplevel:
                if isinstance(st, ast.ClassDef):
                    self._make_class(mod, st)
                elif isinstance(st, ast.FunctionDef):
                    q = f"{mod.name}.{st.name}"
                    self.functions[q] = FuncInfo(q, mod, st)
        # resolve bases afterwards
        for ci in self.classes.values():
            for base in ci.node.bases:
                sub = None
                expr = base
                if isinstance(base, ast.Subscript):
                    expr = base.value
                    sub = base.slice
                r = self.resolve_expr(ci.module, expr)
                if isinstance(r, ClassInfo):
                    ci.bases.append(r)
                elif isinstance(r, str):
                    ci.bases.append(r)
                else:
                    ci.bases.append(ast.unparse(expr))
                if sub is not None:
                    rs = self.resolve_expr(ci.module, sub) if isinstance(sub, (ast.Name, ast.Attribute)) else None
                    ci.base_subscripts.append(rs if rs is not None else ast.unparse(sub))
                else:
                    ci.base_subscripts.append(None)

    def _make_class(self, mod: Module, node: ast.ClassDef) -> None:
        q = f"{mod.name}.{node.name}"
        ci = ClassInfo(q, mod, node)
        ci.body = list(live_statements(node.body))
        for st in ci.body:
            if isinstance(st, ast.FunctionDef):
                fq = f"{q}.{st.name}"
                fi = FuncInfo(fq, mod, st, ci)
                ci.methods[st.name] = fi
                self.functions[fq] = fi
            elif isinstance(st, ast.Assign):
                for t in st.targets:
                    if isinstance(t, ast.Name):
                        ci.attrs[t.id] = st.value
            elif isinstance(st, ast.AnnAssign) and isinstance(st.target, ast.Name) and st.value is not None:
                ci.attrs[st.target.id] = st.value
        self.classes[q] = ci

    # ---------------------------------------------------------------- resolution
    def resolve(self, modname: str, name: str, _depth: int = 0) -> Any:
        """Resolve a top-level name of a module to ClassInfo | FuncInfo | Module | ('assign', Module, expr)
        | external dotted string | None."""
        if _depth > 20:
            return None
        mod = self.modules.get(modname)
        if mod is None:
            return f"{modname}.{name}" if modname else name
        b = mod.bindings.get(name)
        if b is None:
            sub = f"{modname}.{name}"
            if mod.is_pkg and sub in self.modules:
                return self.modules[sub]
            return None
        if b.kind == "class":
            return self.classes.get(f"{modname}.{name}")
        if b.kind == "def":
            return self.functions.get(f"{modname}.{name}")
        if b.kind == "assign":
            # alias of another name?  (fake = generate, GenericSchema = Schema[Any])
            v = b.node
            if isinstance(v, ast.Name) and v.id in mod.bindings and v.id != name:
                return self.resolve(modname, v.id, _depth + 1)
            return ("assign", mod, b.node)
        if b.kind == "import":
            if b.module in self.modules:
                return self.modules[b.module]
            return b.module
        if b.kind == "from":
            if b.module in self.modules:
                r = self.resolve(b.module, b.name, _depth + 1)
                if r is None:
                    sub = f"{b.module}.{b.name}"
                    if sub in self.modules:
                        return self.modules[sub]
                return r
            return f"{b.module}.{b.name}"
        return None

    def resolve_expr(self, mod: Module, expr: ast.expr) -> Any:
        """Resolve a Name / dotted Attribute chain in module scope."""
        if isinstance(expr, ast.Name):
            return self.resolve(mod.name, expr.id)
        if isinstance(expr, ast.Attribute):
            base = self.resolve_expr(mod, expr.value)
            if isinstance(base, Module):
                return self.resolve(base.name, expr.attr)
            if isinstance(base, str):
                return f"{base}.{expr.attr}"
            if isinstance(base, ClassInfo):
                m = base.lookup(expr.attr)
                if m is not None:
                    return m
            return None
        if isinstance(expr, ast.Constant) and isinstance(expr.value, str):
            # string annotation
            try:
                inner = ast.parse(expr.value, mode="eval").body
            except SyntaxError:
                return None
            return self.resolve_expr(mod, inner)
        if isinstance(expr, ast.Subscript):
            return self.resolve_expr(mod, expr.value)
        return None

    # ---------------------------------------------------------------- helpers
    def cls(self, suffix: str) -> ClassInfo:
        hits = [c for q, c in self.classes.items() if q == suffix or q.endswith("." + suffix)]
        if len(hits) != 1:
            raise AnalysisError(f"anchor class {suffix!r}: {len(hits)} candidates")
        return hits[0]

    def func(self, suffix: str) -> FuncInfo:
        hits = [f for q, f in self.functions.items() if q == suffix or q.endswith("." + suffix)]
        if len(hits) != 1:
            raise AnalysisError(f"anchor function {suffix!r}: {len(hits)} candidates")
        return hits[0]

    def module(self, name: str) -> Module:
        if name not in self.modules:
            raise AnalysisError(f"anchor module {name!r} not found")
        return self.modules[name]

    def subclasses(self, base: ClassInfo) -> List[ClassInfo]:
        return [c for c in self.classes.values() if c.qualname != base.qualname and c.is_subclass_of(base)]

    def stats(self) -> Dict[str, int]:
        return {"modules": len(self.modules), "classes": len(self.classes),
                "functions": len(self.functions),
                "lines": sum(m.src.count("\n") + 1 for m in self.modules.values())}


def mangle(cls_name: str, attr: str) -> str:
    if attr.startswith("__") and not attr.endswith("__"):
        return f"_{cls_name.lstrip('_')}{attr}"
    return attr
