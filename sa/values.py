"""Abstract values of the L2 interpreter."""
from __future__ import annotations

import itertools
from typing import Any, Dict, List, Optional, Tuple

_uid = itertools.count(1)


def _py_kind(value: Any) -> Optional[str]:
    if value is None:
        return "NoneType"
    if value is Ellipsis:
        return "ellipsis"
    return type(value).__name__


_KEY_DEPTH = [0]


def _guard(fn: Any) -> Any:
    def wrapped(self: Any) -> str:
        if _KEY_DEPTH[0] > 40:
            return "<deep>"
        _KEY_DEPTH[0] += 1
        try:
            return fn(self)
        finally:
            _KEY_DEPTH[0] -= 1
    return wrapped


class V:
    kind: Optional[str] = None

    def key(self) -> str:
        raise NotImplementedError

    def __init_subclass__(cls, **kw: Any) -> None:
        super().__init_subclass__(**kw)
        if "key" in cls.__dict__:
            cls.key = _guard(cls.__dict__["key"])  # type: ignore

    def __repr__(self) -> str:
        return self.key()


class Const(V):
    def __init__(self, value: Any) -> None:
        self.value = value
        self.kind = _py_kind(value)

    def key(self) -> str:
        if self.value is Ellipsis:
            return "..."
        return repr(self.value)


class Ext(V):
    """An external (stdlib / third party / builtin) object known by dotted name."""

    # module-level data (not callables) whose kind is fixed by the standard library
    DATA_KINDS = {"os.linesep": "str", "os.sep": "str", "os.pathsep": "str", "os.curdir": "str", "sys.maxunicode": "int",
                  "sys.maxsize": "int", "string.ascii_letters": "str", "string.digits": "str", "string.punctuation": "str",
                  "string.ascii_lowercase": "str", "string.ascii_uppercase": "str", "string.printable": "str",
                  "string.whitespace": "str", "math.inf": "float", "math.pi": "float", "math.e": "float"}

    def __init__(self, name: str) -> None:
        self.name = name
        if name in self.DATA_KINDS:
            self.kind = self.DATA_KINDS[name]

    def key(self) -> str:
        return f"<{self.name}>"


NIL = Ext("niltype.Nil")
NIL.kind = "NilType"
ELL = Const(Ellipsis)


def is_nil(v: V) -> bool:
    return isinstance(v, Ext) and v.name in ("niltype.Nil", "niltype._nil.Nil")


def is_ell(v: V) -> bool:
    return isinstance(v, Const) and v.value is Ellipsis


class Sym(V):
    """Opaque symbolic value.  `origin` says where it came from, e.g. ('param', 'value'),
    ('prop', 'min'), ('elem', <iterable key>, i)."""

    def __init__(self, name: str, kind: Optional[str] = None, origin: Tuple[Any, ...] = (),
                 maybe_nil: bool = False, cls: Any = None, exact: bool = False) -> None:
        self.exact = exact      # kind is the exact runtime class (not a subclass)
        self.name = name
        self.kind = kind
        self.origin = origin
        self.maybe_nil = maybe_nil
        self.cls = cls          # ClassInfo for schema-kind symbols when known
        self.uid = next(_uid)

    def key(self) -> str:
        return self.name


class Term(V):
    def __init__(self, op: str, args: Tuple[Any, ...], kind: Optional[str] = None, node: Any = None) -> None:
        self.op = op
        self.args = tuple(args)
        self.kind = kind
        self.node = node

    def key(self) -> str:
        parts = []
        for a in self.args:
            parts.append(a.key() if isinstance(a, V) else str(a))
        return f"{self.op}({', '.join(parts)})"


class Spread:
    """`*x` / `**x` item of an abstract container whose content is unknown."""

    def __init__(self, value: V) -> None:
        self.value = value

    def key(self) -> str:
        return "*" + self.value.key()


class ListV(V):
    kind = "list"

    def __init__(self, items: List[Any], fresh: bool = True) -> None:
        self.items = list(items)
        self.fresh = fresh
        self.uid = next(_uid)

    def key(self) -> str:
        return "[" + ", ".join(i.key() for i in self.items) + "]"

    def concrete(self) -> bool:
        return not any(isinstance(i, Spread) for i in self.items)


class TupleV(V):
    kind = "tuple"

    def __init__(self, items: List[Any]) -> None:
        self.items = list(items)

    def key(self) -> str:
        return "(" + ", ".join(i.key() for i in self.items) + ("," if len(self.items) == 1 else "") + ")"

    def concrete(self) -> bool:
        return not any(isinstance(i, Spread) for i in self.items)


class SetV(V):
    kind = "set"

    def __init__(self, items: List[Any]) -> None:
        self.items = list(items)
        self.uid = next(_uid)

    def key(self) -> str:
        return "{" + ", ".join(sorted(i.key() for i in self.items)) + "}"

    def concrete(self) -> bool:
        return not any(isinstance(i, Spread) for i in self.items)


class DictV(V):
    kind = "dict"

    def __init__(self, items: List[Any]) -> None:
        # items: list of (keyV, valueV) or Spread
        self.items = list(items)
        self.uid = next(_uid)

    def key(self) -> str:
        out = []
        for it in self.items:
            if isinstance(it, Spread):
                out.append("*" + it.key())
            else:
                out.append(f"{it[0].key()}: {it[1].key()}")
        return "{" + ", ".join(out) + "}"

    def concrete(self) -> bool:
        return not any(isinstance(i, Spread) for i in self.items)

    def pairs(self) -> List[Tuple[V, V]]:
        return [i for i in self.items if not isinstance(i, Spread)]

    def lookup(self, k: V) -> Optional[V]:
        kk = k.key()
        found = None
        for it in self.items:
            if not isinstance(it, Spread) and it[0].key() == kk:
                found = it[1]
        return found

    def store(self, k: V, v: V) -> None:
        kk = k.key()
        for idx, it in enumerate(self.items):
            if not isinstance(it, Spread) and it[0].key() == kk:
                self.items[idx] = (k, v)
                return
        self.items.append((k, v))


class StrV(V):
    """Symbolic string: list of literal str pieces and (value, conversion) pieces."""
    kind = "str"

    def __init__(self, pieces: List[Any]) -> None:
        flat: List[Any] = []
        for p in pieces:
            if isinstance(p, str) and flat and isinstance(flat[-1], str):
                flat[-1] += p
            elif isinstance(p, str) and p == "":
                continue
            else:
                flat.append(p)
        self.pieces = flat

    def key(self) -> str:
        out = []
        for p in self.pieces:
            if isinstance(p, str):
                out.append(p)
            else:
                v, conv = p
                out.append("{" + v.key() + ("!" + conv if conv else "") + "}")
        return "f'" + "".join(out) + "'"


class PropsV(V):
    kind = "Props"

    def __init__(self, cls: Any, vals: Dict[str, V], base: str = "fresh", open_: bool = False) -> None:
        self.cls = cls              # ClassInfo
        self.vals = dict(vals)      # explicitly known props
        self.base = base            # 'fresh' | 'schema' (derived from the analysed schema's props)
        self.open = open_           # unknown further props possible
        self.updated: List[str] = []  # keys set through update()/set() since `base`
        self.uid = next(_uid)

    def key(self) -> str:
        inner = ", ".join(f"{k}={v.key()}" for k, v in sorted(self.vals.items()))
        return f"Props[{self.cls.name if self.cls else '?'}]({inner})"

    def get(self, name: str, default: V) -> V:
        return self.vals.get(name, default)

    def updated_with(self, kw: Dict[str, V]) -> "PropsV":
        p = PropsV(self.cls, {**self.vals, **kw}, self.base, self.open)
        p.updated = self.updated + list(kw)
        return p


class SchemaV(V):
    kind = "Schema"

    def __init__(self, cls: Any, props: V, origin: str = "fresh", cls_of: Optional[V] = None) -> None:
        self.cls = cls              # ClassInfo or None (then cls_of says "same class as")
        self.props = props
        self.origin = origin
        self.cls_of = cls_of
        self.uid = next(_uid)

    def key(self) -> str:
        n = self.cls.name if self.cls is not None else f"type({self.cls_of.key()})" if self.cls_of else "?"
        return f"{n}<{self.props.key()}>"


class Inst(V):
    def __init__(self, cls: Any, attrs: Optional[Dict[str, V]] = None, origin: str = "fresh") -> None:
        self.cls = cls
        self.attrs: Dict[str, V] = dict(attrs or {})
        self.kind = cls.name
        self.origin = origin
        self.uid = next(_uid)

    def key(self) -> str:
        return f"<{self.cls.name}#{self.uid}>"


class FuncV(V):
    kind = "function"

    def __init__(self, func: Any, self_val: Optional[V] = None, closure: Any = None) -> None:
        self.func = func            # FuncInfo or ast.Lambda
        self.self_val = self_val
        self.closure = closure

    def key(self) -> str:
        q = getattr(self.func, "qualname", "lambda")
        return f"<fn {q}>"


class ClassV(V):
    kind = "type"

    def __init__(self, cls: Any) -> None:
        self.cls = cls

    def key(self) -> str:
        return f"<class {self.cls.name}>"


class ModV(V):
    kind = "module"

    def __init__(self, mod: Any) -> None:
        self.mod = mod

    def key(self) -> str:
        return f"<module {self.mod.name}>"


class ExcV(V):
    def __init__(self, cls: Any, args: List[V], node: Any = None) -> None:
        self.cls = cls              # ClassInfo | python exception class
        self.args = args
        self.node = node
        self.kind = self.cls_name

    @property
    def cls_name(self) -> str:
        return getattr(self.cls, "name", None) or getattr(self.cls, "__name__", str(self.cls))

    def key(self) -> str:
        return f"{self.cls_name}(...)"


# builtin kind lattice (subclass relation between the kinds d42 cares about)
KIND_PARENTS = {
    "bool": ["int"],
    "datetime": ["date"],
}


def kind_is(kind: str, target: str) -> bool:
    if kind == target:
        return True
    return any(kind_is(p, target) for p in KIND_PARENTS.get(kind, []))


def kind_may_be(kind: str, target: str) -> bool:
    """Could a value whose *static* kind is `kind` be an instance of `target`?"""
    return kind_is(kind, target) or kind_is(target, kind)
