"""L2 - calls: inlining of d42 functions, intrinsics for builtins / Props / containers."""
from __future__ import annotations

import ast
from typing import Any, Dict, List, Optional, Tuple

from .interp import PARTIAL_CALLS, TOTAL_CALLS, Frame, PathLimit, _Raise, _Return, exc_class_of
from .interp_expr import annotation_kind
from .loader import ClassInfo, FuncInfo
from .values import (ELL, NIL, ClassV, Const, DictV, ExcV, Ext, FuncV, Inst, ListV, ModV, PropsV,
                     SchemaV, SetV, Spread, StrV, Sym, Term, TupleV, V, is_ell, is_nil, kind_is,
                     kind_may_be)

MUTATORS = {"append", "extend", "insert", "pop", "remove", "clear", "sort", "reverse", "update",
            "setdefault", "popitem", "add", "discard", "difference_update", "intersection_update",
            "symmetric_difference_update", "__setitem__", "__delitem__"}

KIND_NAMES = {"builtins.int": "int", "builtins.str": "str", "builtins.float": "float",
              "builtins.bool": "bool", "builtins.bytes": "bytes", "builtins.list": "list",
              "builtins.dict": "dict", "builtins.tuple": "tuple", "builtins.set": "set",
              "builtins.NoneType": "NoneType", "builtins.ellipsis": "ellipsis",
              "uuid.UUID": "UUID", "datetime.datetime": "datetime", "datetime.date": "date",
              "builtins.bytearray": "bytearray", "builtins.frozenset": "frozenset",
              "th.PathHolder": "PathHolder", "builtins.object": "object"}


class CallMixin:
    prog: Any

    # ------------------------------------------------------------------ ast.Call
    def e_Call(self, node: ast.Call, fr: Frame) -> V:
        # super()
        if isinstance(node.func, ast.Attribute) and isinstance(node.func.value, ast.Call) and \
                isinstance(node.func.value.func, ast.Name) and node.func.value.func.id == "super":
            return self._super_call(node, fr)
        fn = self.eval(node.func, fr)
        lazy = self._lazy_anyall(fn, node, fr)
        if lazy is not None:
            return lazy
        args: List[Any] = []
        for a in node.args:
            if isinstance(a, ast.Starred):
                v = self.eval(a.value, fr)
                if isinstance(v, (ListV, TupleV)) and v.concrete():
                    args.extend(v.items)
                else:
                    args.append(Spread(v))
            else:
                args.append(self._unwrap1(self.eval(a, fr)))
        kwargs: Dict[str, V] = {}
        for k in node.keywords:
            v = self._unwrap1(self.eval(k.value, fr))
            if k.arg is None:
                if isinstance(v, DictV) and v.concrete() and all(
                        isinstance(kk, Const) and isinstance(kk.value, str) for kk, _ in v.pairs()):
                    for kk, vv in v.pairs():
                        kwargs[kk.value] = vv
                elif isinstance(v, DictV):
                    for it in v.items:
                        if isinstance(it, Spread):
                            kwargs["**" + it.value.key()] = it.value
                        elif isinstance(it[0], Const):
                            kwargs[str(it[0].value)] = it[1]
                else:
                    kwargs["**" + v.key()] = v
            else:
                kwargs[k.arg] = v
        return self._invoke(fn, args, kwargs, node)

    def _lazy_anyall(self, fn: V, node: ast.Call, fr: Frame) -> Optional[V]:
        """any(<genexp over a concrete sequence>) / all(...): the generator is consumed lazily, element by element,
        and the call stops at the first deciding element - evaluated that way (an or-/and-chain)."""
        if not (isinstance(fn, Ext) and fn.name in ("builtins.any", "builtins.all")) or node.keywords or len(node.args) != 1:
            return None
        g = node.args[0]
        if not isinstance(g, (ast.GeneratorExp, ast.ListComp)) or len(g.generators) != 1 or g.generators[0].is_async:
            return None
        gen = g.generators[0]
        it = self.eval(gen.iter, fr)
        if not (isinstance(it, (ListV, TupleV)) and it.concrete()):
            return None
        if isinstance(g, ast.ListComp):
            return None         # a list is built eagerly: every element is evaluated
        is_any = fn.name == "builtins.any"
        inner = Frame(fr.func, fr.module, {}, fr.cls, fr.self_val, closure=fr)
        for item in list(it.items):
            self.assign(gen.target, item, inner, node)
            if not all(self.decide(self.eval(c, inner), c) for c in gen.ifs):
                continue
            t = self.decide(self.eval(g.elt, inner), g.elt)
            if t and is_any:
                return Const(True)
            if not t and not is_any:
                return Const(False)
        return Const(not is_any)

    def _super_call(self, node: ast.Call, fr: Frame) -> V:
        attr = node.func.attr  # type: ignore
        cls = fr.cls
        target = None
        if cls is not None:
            for c in cls.mro()[1:]:
                if attr in c.methods:
                    target = c.methods[attr]
                    break
        args = [self.eval(a, fr) for a in node.args]
        kwargs = {}
        for k in node.keywords:
            v = self.eval(k.value, fr)
            if k.arg is None:
                if isinstance(v, DictV):
                    for it in v.items:
                        if isinstance(it, Spread):
                            kwargs["**" + it.value.key()] = it.value
                        elif isinstance(it[0], Const):
                            kwargs[str(it[0].value)] = it[1]
                else:
                    kwargs["**" + v.key()] = v
            else:
                kwargs[k.arg] = v
        if target is None:
            self.emit("call", node, callee=f"super().{attr}", args=args, kwargs=kwargs, resolved=False)
            return Term("call", (f"super().{attr}",), node=node)
        return self._invoke(FuncV(target, fr.self_val), args, kwargs, node)

    # ------------------------------------------------------------------ dispatch
    def _invoke(self, fn: V, args: List[Any], kwargs: Dict[str, V], node: Any) -> V:
        if isinstance(fn, FuncV):
            return self._call_func(fn, args, kwargs, node)
        if isinstance(fn, ClassV):
            return self._construct(fn.cls, args, kwargs, node)
        if isinstance(fn, Ext):
            return self._call_ext(fn.name, args, kwargs, node)
        if isinstance(fn, Term) and fn.op == "bound":
            return self._call_bound(fn.args[0], fn.args[1], args, kwargs, node)
        if isinstance(fn, Term) and fn.op == "attrgetter" and len(args) == 1 and not kwargs:
            v = args[0]
            for part in str(fn.args[0]).split("."):        # operator.attrgetter("a.b")(x) is x.a.b
                if isinstance(v, (Sym, Term)) and self.kind_of(v) in (None, "Schema"):
                    r_ = self.x_getattr([v, Const(part)], {}, node)      # the same lookup as getattr(x, "a")
                    v = r_ if r_ is not None else self.getattr(v, part, node)
                else:
                    v = self.getattr(v, part, node)
            return v
        if isinstance(fn, Term) and fn.op == "methodcaller" and len(args) == 1 and not kwargs:
            # operator.methodcaller("name", *a)(x) is x.name(*a)
            return self._invoke(self.getattr(args[0], str(fn.args[0]), node), list(fn.args[1:]), {}, node)
        if isinstance(fn, Term) and fn.op == "itemgetter" and len(args) == 1 and not kwargs:
            return self.getitem(args[0], fn.args[0], node)
        if isinstance(fn, Term) and fn.op == "attr":
            recv, attr = fn.args[0], fn.args[1]
            if attr == "__class__":
                # type(schema)(props)
                props = args[0] if args else NIL
                sv = SchemaV(None, props, "fresh", cls_of=recv)
                self.emit("construct", node, cls=None, cls_of=recv, args=args, kwargs=kwargs)
                return sv
            return self._call_method_sym(recv, attr, args, kwargs, node)
        if isinstance(fn, (SchemaV,)) or (isinstance(fn, Sym) and fn.kind == "Schema"):
            return self.call_dunder(fn, "__call__", args, node, kwargs)
        if isinstance(fn, Inst):
            m = fn.cls.lookup("__call__")
            if m is not None:
                return self._call_func(FuncV(m, fn), args, kwargs, node)
        self.emit("call", node, callee=fn, args=args, kwargs=kwargs, resolved=False)
        if isinstance(fn, (Sym, Term)):
            return Term("call", (fn,) + tuple(a for a in args if isinstance(a, V)), node=node)
        return Term("call", (fn,), node=node)

    def call_dunder(self, recv: V, name: str, args: List[V], node: Any,
                    kwargs: Optional[Dict[str, V]] = None) -> V:
        model = getattr(self, "model", None)
        if model is not None and name in model.overrides:
            fn = model.overrides[name][0]
            if isinstance(fn, FuncInfo):
                return self._call_func(FuncV(fn, None), [recv] + list(args), kwargs or {}, node)
        if isinstance(recv, SchemaV) and recv.cls is not None:
            m = recv.cls.lookup(name)
            if m is not None:
                return self._call_func(FuncV(m, recv), list(args), kwargs or {}, node)
        self.emit("call", node, callee=f"{recv.key()}.{name}", args=args, kwargs=kwargs or {}, resolved=False)
        return Term("call", (name, recv) + tuple(args), kind="Schema" if name in ("__call__", "__add__", "__or__", "__mod__") else None, node=node)

    def _program_decorator(self, d: ast.expr, func: FuncInfo) -> bool:
        """Is this decorator a function (or a call of a function) defined in the analysed program?"""
        base = d.func if isinstance(d, ast.Call) else d
        if not isinstance(base, ast.Name):
            return False
        if base.id in ("staticmethod", "classmethod", "property", "final", "overload", "abstractmethod"):
            return False
        b = func.module.bindings.get(base.id)
        r = self.prog.resolve(func.module.name, base.id) if b is not None else None
        return isinstance(r, FuncInfo)

    # ------------------------------------------------------------------ d42 functions
    def _call_func(self, fv: FuncV, args: List[Any], kwargs: Dict[str, V], node: Any) -> V:
        func = fv.func
        pre = getattr(fv, "pre_args", None)
        if pre:
            args = list(pre) + list(args)           # functools.partialmethod(f, *pre)
        if isinstance(func, ast.Lambda):
            fr = Frame(None, fv.closure.module, {}, fv.closure.cls, fv.closure.self_val, closure=fv.closure)
            self._bind(func.args, args, kwargs, fr, None, node)
            return self.eval(func.body, fr)
        assert isinstance(func, FuncInfo)
        # a decorator defined in the program wraps the function: calling the function calls the wrapper
        if not getattr(fv, "raw", False) and getattr(func.node, "decorator_list", None):
            decos = [d for d in func.node.decorator_list if self._program_decorator(d, func)]
            if decos:
                inner = FuncV(func, None, fv.closure)
                inner.raw = True                    # type: ignore[attr-defined]
                w: V = inner
                dfr = Frame(None, func.module, {}, func.cls, None)
                for d in reversed(decos):
                    w = self._invoke(self.eval(d, dfr), [w], {}, node)
                if isinstance(w, FuncV):
                    return self._invoke(w, ([fv.self_val] if fv.self_val is not None else []) + list(args), kwargs, node)
                self.emit("unsupported", node, what=f"decorator of {func.qualname} does not evaluate to a function")
        # contracts: callee handled by summary instead of inlining
        contract = self.contracts.get(func.qualname) or self.contracts.get(func.name)
        if contract is not None:
            r = contract(self, fv, args, kwargs, node)
            if r is not None:
                return r
        summ = getattr(self, "accept_summary", None)
        if summ is not None and func.name == "__accept__" and args and fv.self_val is not None \
                and summ(fv.self_val, args[0]):
            return self.accept(fv.self_val, args, kwargs, node)
        depth = len(self.stack)
        on_stack = sum(1 for f in self.stack if f.func is not None and f.func.qualname == func.qualname)
        if depth >= self.max_depth or on_stack >= getattr(self, "max_recursion", 1):
            self.emit("call", node, callee=func.qualname, args=args, kwargs=kwargs, resolved=True,
                      inlined=False, recursive=on_stack >= 1, self_val=fv.self_val)
            return Term("call", (func.qualname,) + tuple(a for a in args if isinstance(a, V)),
                        kind=self._ret_kind(func), node=node)
        is_gen = any(isinstance(n, (ast.Yield, ast.YieldFrom)) for n in ast.walk(func.node))
        fr = Frame(func, func.module, {}, func.cls, fv.self_val, closure=fv.closure if isinstance(fv.closure, Frame) else None)
        self._bind(func.node.args, args, kwargs, fr, fv.self_val, node,
                   is_static=any(isinstance(d, ast.Name) and d.id == "staticmethod" for d in func.node.decorator_list))
        self.emit("call", node, callee=func.qualname, args=args, kwargs=kwargs, resolved=True, inlined=True,
                  self_val=fv.self_val)
        if is_gen:
            # a generator function whose body is `for t in S: [if c:] yield e` is the generator expression it spells
            body_ = [st_ for st_ in func.node.body if not (isinstance(st_, ast.Expr) and isinstance(st_.value, ast.Constant))]
            if len(body_) == 1 and isinstance(body_[0], ast.For) and not body_[0].orelse:
                lb = list(body_[0].body)
                conds_: List[ast.expr] = []
                if len(lb) == 1 and isinstance(lb[0], ast.If) and not lb[0].orelse:
                    conds_.append(lb[0].test)
                    lb = list(lb[0].body)
                if len(lb) == 1 and isinstance(lb[0], ast.Expr) and isinstance(lb[0].value, ast.Yield) and lb[0].value.value is not None:
                    gen = ast.GeneratorExp(elt=lb[0].value.value, generators=[
                        ast.comprehension(target=body_[0].target, iter=body_[0].iter, ifs=conds_, is_async=0)])
                    ast.copy_location(gen, body_[0])
                    ast.fix_missing_locations(gen)
                    self.stack.append(fr)
                    try:
                        return self.eval(gen, fr)
                    finally:
                        self.stack.pop()
        self.stack.append(fr)
        saved_handlers = None
        n_events_before = len(self.events)
        try:
            try:
                self.exec_block(func.node.body, fr)
                ret: V = Const(None)
            except _Return as r:
                ret = r.value
        finally:
            self.stack.pop()
        if is_gen:
            # the generator is evaluated eagerly (its body ran above); what it yields, in order, stands for it
            ys = [e for e in self.events[n_events_before:] if e.kind == "yield" and e.func == func.qualname]
            items: List[Any] = []
            for e in ys:
                v = e.data.get("value")
                if e.data.get("from_"):
                    v = self._unwrap1(v) if isinstance(v, V) else v
                    if isinstance(v, (ListV, TupleV)) and v.concrete():
                        items.extend(v.items)
                    else:
                        items.append(Spread(v))
                else:
                    items.append(v)
            g = ListV(items)
            g.generator_of = func.qualname  # type: ignore
            return g
        return ret

    def _ret_kind(self, func: FuncInfo) -> Optional[str]:
        if func.node.returns is not None:
            return annotation_kind(ast.unparse(func.node.returns))
        return None

    def _bind(self, a: ast.arguments, args: List[Any], kwargs: Dict[str, V], fr: Frame,
              self_val: Optional[V], node: Any, is_static: bool = False) -> None:
        params = list(a.posonlyargs) + list(a.args)
        pos: List[Any] = list(args)
        if self_val is not None and not is_static:
            pos = [self_val] + pos
        kw = dict(kwargs)
        spreads = [x for x in pos if isinstance(x, Spread)]
        pos = [x for x in pos if not isinstance(x, Spread)]
        defaults = [None] * (len(params) - len(a.defaults)) + list(a.defaults)
        for i, (p, d) in enumerate(zip(params, defaults)):
            if i < len(pos):
                fr.locals[p.arg] = pos[i]
            elif p.arg in kw:
                fr.locals[p.arg] = kw.pop(p.arg)
            elif spreads:
                fr.locals[p.arg] = Term("unpack", (spreads[0].value, i), node=node)
            elif d is not None:
                fr.locals[p.arg] = self.eval(d, Frame(None, fr.module, {}))
            else:
                unknown_kw = [k for k in kw if k.startswith("**")]
                if unknown_kw:
                    fr.locals[p.arg] = Term("kwitem", (kw[unknown_kw[0]], p.arg), node=node)
                else:
                    self.emit("partial", node, op="arity", excs=(TypeError,), definite=True, missing=p.arg)
                    fr.locals[p.arg] = Sym(p.arg, self._annot_kind(p), ("param", p.arg))
        extra = pos[len(params):]
        if a.vararg is not None:
            items: List[Any] = list(extra) + list(spreads if len(pos) >= len(params) or not params else [])
            fr.locals[a.vararg.arg] = TupleV(items)
        elif extra:
            self.emit("partial", node, op="arity", excs=(TypeError,), definite=True, extra=len(extra))
        for p, d in zip(a.kwonlyargs, a.kw_defaults):
            if p.arg in kw:
                fr.locals[p.arg] = kw.pop(p.arg)
            elif d is not None:
                unknown_kw = [k for k in kw if k.startswith("**")]
                dv = self.eval(d, Frame(None, fr.module, {}))
                if unknown_kw:
                    # the value may come from **kwargs of the caller: keep the default but remember
                    fr.locals[p.arg] = dv
                else:
                    fr.locals[p.arg] = dv
            else:
                fr.locals[p.arg] = Sym(p.arg, self._annot_kind(p), ("param", p.arg))
        if a.kwarg is not None:
            items2: List[Any] = []
            for k, v in kw.items():
                if k.startswith("**"):
                    items2.append(Spread(v))
                else:
                    items2.append((Const(k), v))
            fr.locals[a.kwarg.arg] = DictV(items2)
        elif kw:
            named = [k for k in kw if not k.startswith("**")]
            if named:
                self.emit("partial", node, op="arity", excs=(TypeError,), definite=True, unexpected=named)

    def _annot_kind(self, p: ast.arg) -> Optional[str]:
        if p.annotation is not None:
            return annotation_kind(ast.unparse(p.annotation))
        return None

    # ------------------------------------------------------------------ construction
    def _construct(self, ci: ClassInfo, args: List[Any], kwargs: Dict[str, V], node: Any) -> V:
        model = getattr(self, "model", None)
        exts = ci.ext_bases()
        if any(e.split(".")[-1] in ("Exception", "AssertionError", "BaseException", "ValueError",
                                    "TypeError", "KeyError") for e in exts):
            return ExcV(ci, [a for a in args if isinstance(a, V)], node)
        if model is not None and ci.is_subclass_of(model.props_base):
            reg = args[0] if args else kwargs.get("registry", NIL)
            self.emit("construct", node, cls=ci, args=args, kwargs=kwargs)
            if is_nil(reg):
                return PropsV(ci, {}, "fresh")
            if isinstance(reg, DictV) and reg.concrete() and all(isinstance(k, Const) for k, _ in reg.pairs()):
                return PropsV(ci, {k.value: v for k, v in reg.pairs()}, "fresh")
            p = PropsV(ci, {}, "fresh", open_=True)
            p.registry = reg  # type: ignore
            return p
        if model is not None and ci.is_subclass_of(model.schema_base):
            props = args[0] if args else kwargs.get("props", NIL)
            self.emit("construct", node, cls=ci, args=args, kwargs=kwargs)
            if is_nil(props):
                st = model.schemas.get(ci.name)
                pc = st.props_cls if st else None
                props = PropsV(pc, {}, "fresh")
            return SchemaV(ci, props, "fresh")
        inst = Inst(ci)
        self.emit("construct", node, cls=ci, args=args, kwargs=kwargs)
        init = ci.lookup("__init__")
        if init is not None:
            self._call_func(FuncV(init, inst), args, kwargs, node)
        elif self._record_class(ci):
            # typing.NamedTuple / @dataclass: the synthesised __init__ stores its arguments in the annotated fields
            fields = [(st.target.id, st.value) for c in reversed(ci.mro()) for st in c.body
                      if isinstance(st, ast.AnnAssign) and isinstance(st.target, ast.Name)]
            pos = [a for a in args if isinstance(a, V)]
            for i, (name, default) in enumerate(fields):
                if i < len(pos):
                    inst.attrs[name] = pos[i]
                elif name in kwargs:
                    inst.attrs[name] = kwargs[name]
                elif default is not None:
                    inst.attrs[name] = self.eval(default, Frame(None, ci.module, {}))
        return inst

    @staticmethod
    def _record_class(ci: ClassInfo) -> bool:
        for c in ci.mro():
            if any(str(b).split(".")[-1] == "NamedTuple" for b in c.ext_bases()):
                return True
            for d in c.node.decorator_list:
                f = d.func if isinstance(d, ast.Call) else d
                if (isinstance(f, ast.Name) and f.id == "dataclass") or (isinstance(f, ast.Attribute) and f.attr == "dataclass"):
                    return True
        return False

    def _construct_exc(self, v: V, args: List[V], node: Any) -> ExcV:
        if isinstance(v, ClassV):
            return ExcV(v.cls, args, node)
        assert isinstance(v, Ext)
        c = exc_class_of(v.name)
        return ExcV(c if c is not None else Exception, args, node)

    # ------------------------------------------------------------------ externals
    def _call_ext(self, name: str, args: List[Any], kwargs: Dict[str, V], node: Any) -> V:
        short = name.split(".", 1)[1] if name.startswith("builtins.") else name
        if name.startswith("operator.") and not kwargs and all(isinstance(a, V) for a in args):
            r0 = self._operator_call(name.split(".", 1)[1], list(args), node)
            if r0 is not None:
                return r0
        h = getattr(self, "x_" + short.replace(".", "_"), None)
        c = exc_class_of(name)
        if c is not None and isinstance(c, type) and issubclass(c, BaseException):
            return ExcV(c, [a for a in args if isinstance(a, V)], node)
        if name in ("functools.wraps", "functools.update_wrapper.partial"):
            return Ext("functools.wraps.apply")        # wraps(f)(g) is g (metadata aside)
        if name == "functools.wraps.apply" and len(args) == 1:
            return args[0]
        if name == "builtins.bool" and h is None and len(args) == 1 and isinstance(args[0], Const) and not kwargs:
            return Const(bool(args[0].value))
        if name in KIND_NAMES and h is None:
            self.emit("call", node, callee=name, args=args, kwargs=kwargs, resolved=True, external=True)
            if name in PARTIAL_CALLS and args:
                self.partial(name, PARTIAL_CALLS[name] + (TypeError,), node, operands=tuple(a for a in args if isinstance(a, V)))
            t = Term("call", (name,) + tuple(a for a in args if isinstance(a, V)), kind=KIND_NAMES[name], node=node)
            if KIND_NAMES[name] in ("int", "float", "str", "bytes", "bool", "list", "dict", "tuple", "set", "frozenset", "bytearray"):
                t.exact = True      # type: ignore[attr-defined]   # K(x) is an instance of exactly K
            return t
        if h is not None:
            r = h(args, kwargs, node)
            if r is not None:
                return r
        self.emit("call", node, callee=name, args=args, kwargs=kwargs, resolved=True, external=True)
        if name in PARTIAL_CALLS:
            self.partial(name, PARTIAL_CALLS[name], node, operands=tuple(a for a in args if isinstance(a, V)))
        elif name not in TOTAL_CALLS:
            self.emit("unknown_callee", node, callee=name)
        kind = {"re.search": None, "re.compile": "Pattern", "math.isclose": "bool", "math.isfinite": "bool", "builtins.round": "int",
                "math.floor": "int", "math.ceil": "int", "builtins.repr": "str", "builtins.str": "str",
                "random.randint": "int", "random.uniform": "float", "copy.deepcopy": None,
                "builtins.sorted": "list", "builtins.hash": "int", "builtins.abs": None,
                "builtins.chr": "str", "builtins.object.__repr__": "str", "builtins.object.__str__": "str",
                "builtins.ascii": "str", "builtins.hex": "str"}.get(name)
        if name == "builtins.round" and len(args) >= 2:
            kind = "float"
        kw_terms = tuple(Term("kw", (k, v)) for k, v in sorted(kwargs.items()) if isinstance(v, V) and not k.startswith("**")) \
            if name in ("math.isclose",) else ()
        return Term("call", (name,) + tuple(a for a in args if isinstance(a, V)) + kw_terms, kind=kind, node=node)

    def x_isinstance(self, args: List[V], kwargs: Dict[str, V], node: Any) -> Optional[V]:
        if len(args) != 2:
            return None
        x, k = args
        ks = k.items if isinstance(k, TupleV) else [k]
        results: List[Optional[bool]] = []
        names: List[str] = []
        for kk in ks:
            r, nm = self._isinstance1(x, kk)
            results.append(r)
            names.append(nm)
        if any(r is True for r in results):
            return Const(True)
        if all(r is False for r in results):
            return Const(False)
        label = "|".join(n for n, r in zip(names, results) if r is None)
        return Term("isinstance", (x, label), kind="bool", node=node)

    def _isinstance1(self, x: V, k: V) -> Tuple[Optional[bool], str]:
        model = getattr(self, "model", None)
        if isinstance(k, Ext):
            kn = KIND_NAMES.get(k.name, k.name)
            if isinstance(x, Const):
                real = exc_class_of(k.name)
                if k.name in KIND_NAMES and kn in ("int", "str", "float", "bool", "bytes", "list", "dict", "tuple", "set", "NoneType", "ellipsis"):
                    py = {"NoneType": type(None), "ellipsis": type(Ellipsis)}.get(kn) or getattr(__import__("builtins"), kn)
                    return isinstance(x.value, py), kn
                return False, kn
            if is_nil(x):
                return False, kn
            if isinstance(x, (SchemaV, PropsV, Inst, FuncV, ClassV, ExcV)):
                return (kn == "object"), kn
            xk = self.kind_of(x)
            if isinstance(x, (ListV, DictV, TupleV, SetV, StrV)):
                return kind_is(x.kind, kn), kn  # type: ignore
            if xk is not None and getattr(x, "exact", False):
                return (kind_is(xk, kn) or kn == "object"), kn
            if xk is not None:
                if kind_is(xk, kn):
                    return True, kn
                if xk == "Schema" or xk == "Props":
                    return False, kn
                if not kind_may_be(xk, kn):
                    return False, kn
                return None, kn
            uid = getattr(x, "uid", None)
            if uid is not None and kn in self.notkinds.get(uid, []):
                return False, kn
            return None, kn
        if isinstance(k, ClassV):
            kn = k.cls.name
            if isinstance(x, Sym) and x.origin and x.origin[0] == "dictkey":
                return False, kn        # a token of a key TABLE: a plain hashable key (optional keys are stored unwrapped)
            if isinstance(x, SchemaV):
                if x.cls is not None:
                    return x.cls.is_subclass_of(k.cls), kn
                if model is not None and k.cls.qualname == model.schema_base.qualname:
                    return True, kn
                return None, kn
            if isinstance(x, (PropsV, Inst)):
                return (x.cls is not None and x.cls.is_subclass_of(k.cls)), kn
            if isinstance(x, ExcV):
                return (isinstance(x.cls, ClassInfo) and x.cls.is_subclass_of(k.cls)), kn
            if isinstance(x, (Const, ListV, DictV, TupleV, SetV, StrV, FuncV, ClassV)) or is_nil(x):
                return False, kn
            xk = self.kind_of(x)
            if xk == "Schema" and model is not None:
                if k.cls.qualname == model.schema_base.qualname:
                    return True, kn
                xc = getattr(x, "cls", None)
                if isinstance(xc, ClassInfo):
                    return xc.is_subclass_of(k.cls), kn
                if k.cls.is_subclass_of(model.schema_base):
                    return None, kn
                return False, kn
            if xk is not None and xk == kn:
                return True, kn
            if xk is not None and getattr(x, "exact", False) and not xk.endswith("Schema"):
                return False, kn
            if xk is not None and xk in ("int", "str", "float", "bool", "bytes", "list", "dict", "tuple", "NoneType", "ellipsis", "UUID", "datetime", "date"):
                return False, kn
            uid = getattr(x, "uid", None)
            if uid is not None and kn in self.notkinds.get(uid, []):
                return False, kn
            return None, kn
        if isinstance(k, Term) and k.op == "attr" and k.args[1] == "__class__":
            return None, f"type({k.args[0].key()})"
        return None, k.key()

    def x_type(self, args: List[V], kwargs: Dict[str, V], node: Any) -> Optional[V]:
        if len(args) != 1:
            return None
        x = args[0]
        if isinstance(x, Const):
            n = type(x.value).__name__
            return Ext("builtins." + n)
        if isinstance(x, (SchemaV, Inst, PropsV)) and x.cls is not None:
            return ClassV(x.cls)
        if isinstance(x, Sym) and getattr(x, "exact", False) and self.kind_of(x) is not None:
            # the symbol stands for a value of exactly this class
            k = str(self.kind_of(x))
            full = next((n for n, kk in KIND_NAMES.items() if kk == k), None)
            return Ext(full if full is not None else "exactkind." + k)
        if isinstance(x, (ListV, DictV, SetV, TupleV, StrV)):
            return Ext("builtins." + {"ListV": "list", "DictV": "dict", "SetV": "set", "TupleV": "tuple", "StrV": "str"}[type(x).__name__])
        return Term("attr", (x, "__class__"), kind="type", node=node)

    def x_len(self, args: List[V], kwargs: Dict[str, V], node: Any) -> Optional[V]:
        x = args[0]
        x = self._unwrap1(x)
        if isinstance(x, (ListV, TupleV, SetV, DictV)) and x.concrete():
            return Const(len(x.items))
        if isinstance(x, Const) and isinstance(x.value, (str, bytes, tuple, list, dict)):
            return Const(len(x.value))
        k = self.kind_of(x)
        if is_ell(x) or is_nil(x):
            return self.implicit_raise(TypeError, node, op="len", operands=(x,))
        if k not in ("str", "list", "dict", "tuple", "set", "bytes", "sequence", "PathHolder") and not isinstance(x, (ListV, TupleV, SetV, DictV, StrV)):
            self.partial("len", (TypeError,), node, operands=(x,))
        return Term("len", (x,), kind="int", node=node)

    def x_max(self, args: List[V], kwargs: Dict[str, V], node: Any) -> Optional[V]:
        return self._minmax("max", args, node, kwargs)

    def x_min(self, args: List[V], kwargs: Dict[str, V], node: Any) -> Optional[V]:
        return self._minmax("min", args, node, kwargs)

    def x_ord(self, args: List[V], kwargs: Dict[str, V], node: Any) -> Optional[V]:
        if len(args) == 1 and isinstance(args[0], Const) and isinstance(args[0].value, str) and len(args[0].value) == 1:
            return Const(ord(args[0].value))
        return None

    def _minmax(self, op: str, args: List[V], node: Any, kwargs: Optional[Dict[str, V]] = None) -> Optional[V]:
        kwargs = kwargs or {}
        if len(args) == 1 and "key" not in kwargs:
            x = self._unwrap1(args[0])
            if isinstance(x, Const) and isinstance(x.value, (str, tuple)):
                x = ListV([Const(c) for c in x.value])
            if isinstance(x, (ListV, TupleV, SetV)) and x.concrete() and all(isinstance(i, Const) for i in x.items):
                vals = [i.value for i in x.items]
                if vals:
                    try:
                        return Const(max(vals) if op == "max" else min(vals))
                    except Exception:
                        return None
                if "default" in kwargs:
                    return kwargs["default"]
        if len(args) >= 2 and all(isinstance(a, Const) for a in args):
            try:
                return Const(max(a.value for a in args) if op == "max" else min(a.value for a in args))  # type: ignore
            except Exception:
                return None
        if len(args) >= 2:
            kinds = {self.kind_of(a) for a in args}
            kind = kinds.pop() if len(kinds) == 1 else ("float" if "float" in kinds else None)
            return Term(op, tuple(args), kind=kind, node=node)
        if len(args) == 1:
            self.partial(op, (ValueError,), node, operands=tuple(args))
            return Term(op, tuple(args), node=node)
        return None

    def x_enumerate(self, args: List[V], kwargs: Dict[str, V], node: Any) -> Optional[V]:
        return Term("enumerate", tuple(args), kind="iterator", node=node)

    def x_range(self, args: List[V], kwargs: Dict[str, V], node: Any) -> Optional[V]:
        return Term("range", tuple(args), kind="sequence", node=node)

    def x_list(self, args: List[V], kwargs: Dict[str, V], node: Any) -> Optional[V]:
        if not args:
            return ListV([])
        x = args[0]
        if isinstance(x, DictV) and x.concrete():
            return ListV([k for k, _ in x.pairs()])
        if isinstance(x, (ListV, TupleV, SetV)):
            return ListV(list(x.items))
        if isinstance(x, Term) and x.op in ("listcomp", "gencomp", "setcomp"):
            return Term("listcomp", x.args, kind="list", node=node)
        return ListV([Spread(x)])

    def x_tuple(self, args: List[V], kwargs: Dict[str, V], node: Any) -> Optional[V]:
        if not args:
            return TupleV([])
        x = args[0]
        if isinstance(x, (ListV, TupleV)):
            return TupleV(list(x.items))
        return TupleV([Spread(x)])

    def x_set(self, args: List[V], kwargs: Dict[str, V], node: Any) -> Optional[V]:
        if not args:
            return SetV([])
        x = args[0]
        if isinstance(x, DictV) and x.concrete():
            return SetV([k for k, _ in x.pairs()])
        if isinstance(x, (ListV, TupleV, SetV)) and x.concrete():
            return SetV(list(x.items))
        if isinstance(x, Const) and isinstance(x.value, str):
            return SetV([Const(c) for c in dict.fromkeys(x.value)])
        t = Term("set", (x,), kind="set", node=node)
        t.elem_kind = self._elem_kind(x)  # type: ignore
        return t

    def x_frozenset(self, args: List[V], kwargs: Dict[str, V], node: Any) -> Optional[V]:
        return self.x_set(args, kwargs, node)

    def x_dict(self, args: List[V], kwargs: Dict[str, V], node: Any) -> Optional[V]:
        if not args and not kwargs:
            return DictV([])
        if args and isinstance(args[0], DictV):
            return DictV(list(args[0].items))
        if args and isinstance(args[0], (ListV, TupleV)) and args[0].concrete() and not kwargs and all(
                isinstance(x, (TupleV, ListV)) and x.concrete() and len(x.items) == 2 for x in args[0].items):
            d = DictV([])
            for x in args[0].items:          # dict(<pairs>): later pairs overwrite earlier ones with an equal key
                d.store(x.items[0], x.items[1])
            return d
        if args:
            return DictV([Spread(args[0])])
        return DictV([(Const(k), v) for k, v in kwargs.items()])

    def x_getattr(self, args: List[V], kwargs: Dict[str, V], node: Any) -> Optional[V]:
        if len(args) >= 2 and isinstance(args[1], StrV) and all(isinstance(p, str) for p in args[1].pieces):
            # getattr(self, f"_Cls__declare_{name}") with a known `name`: the f-string is a constant
            args = [args[0], Const("".join(args[1].pieces))] + list(args[2:])
        if len(args) >= 2 and isinstance(args[1], Const) and isinstance(args[1].value, str):
            recv, name = args[0], args[1].value
            if isinstance(recv, (SchemaV, Inst)) and recv.cls is not None:
                m = recv.cls.lookup(name)
                if m is not None:
                    return FuncV(m, recv)
                if isinstance(recv, Inst) and name in recv.attrs:
                    return recv.attrs[name]
                if len(args) == 3:
                    # class may be subclassed by users (CustomSchema hooks): unknown
                    if recv.origin == "param" or getattr(recv, "open_class", False):
                        return Term("getattr", (recv, name), node=node)
                    return args[2]
            if isinstance(recv, ClassV):
                return self.getattr(recv, name, node)
            if len(args) == 2 and isinstance(recv, (PropsV, SchemaV, Inst, ModV)):
                return self.getattr(recv, name, node)      # getattr(x, "name") is x.name
            if len(args) == 2 and isinstance(recv, Ext) and "." not in recv.name.replace("builtins.", ""):
                return self.getattr(recv, name, node)      # getattr(<imported module>, "name") is module.name
            t = Term("getattr", (recv, name), node=node)
            if len(args) == 2:
                self.partial("getattr", (AttributeError,), node, operands=(recv, args[1]))
            return t
        return None

    def x_cast(self, args: List[V], kwargs: Dict[str, V], node: Any) -> Optional[V]:
        return args[1] if len(args) == 2 else None

    def x_typing_cast(self, args: List[V], kwargs: Dict[str, V], node: Any) -> Optional[V]:
        return args[1] if len(args) == 2 else None

    def x_next(self, args: List[V], kwargs: Dict[str, V], node: Any) -> Optional[V]:
        # next(<the items a generator / iterator is known to yield>[, default])
        if args:
            src = self._unwrap1(args[0])
            if isinstance(src, Term) and src.op in ("iter",) and src.args and isinstance(src.args[0], V):
                src = self._unwrap1(src.args[0])
            if isinstance(src, (ListV, TupleV)) and src.concrete():
                if src.items:
                    return src.items[0]
                if len(args) > 1:
                    return args[1]
            # next((x for x in S if c), DEFAULT) over a source that cannot be enumerated: DEFAULT exactly when no member of S
            # satisfies c - the same universal fact the search loop `for x in S: if c: ...` leaves behind
            if len(args) == 2 and isinstance(src, Term) and src.op == "gencomp" and len(src.args) == 3:
                conds = src.args[2]
                cl = list(conds.items) if hasattr(conds, "items") else (list(conds) if isinstance(conds, (tuple, list)) else [])
                if len(cl) == 1 and isinstance(cl[0], V):
                    anyt = Term("any", (Term("gencomp", (cl[0], src.args[1]), kind="generator", node=node),), kind="bool", node=node)
                    if not self.decide(anyt, node):
                        return args[1]
        return None

    def x_repr(self, args: List[V], kwargs: Dict[str, V], node: Any) -> Optional[V]:
        if args and isinstance(args[0], Const) and not isinstance(args[0].value, (float,)):
            return Const(repr(args[0].value))
        if args:
            self.emit("format", node, value=args[0], conv="r")
            self.render_partial(args[0], node)
            return StrV([(args[0], "r")])
        return None

    def x_str(self, args: List[V], kwargs: Dict[str, V], node: Any) -> Optional[V]:
        if args and isinstance(args[0], Const) and isinstance(args[0].value, (str, int)):
            return Const(str(args[0].value))
        if args and isinstance(args[0], StrV):
            return args[0]
        if args:
            self.render_partial(args[0], node)
            return StrV([(args[0], "s")])
        return Const("")

    def x_sorted(self, args: List[V], kwargs: Dict[str, V], node: Any) -> Optional[V]:
        if args:
            args = [self._unwrap1(args[0])] + list(args[1:])
            ek = self._elem_kind(args[0])
            if isinstance(args[0], (ListV, TupleV, SetV)) and args[0].concrete():
                ks = {self.kind_of(x) for x in args[0].items}
                ek = ks.pop() if len(ks) == 1 else None
            if "key" not in kwargs and ek not in ("str", "int", "float", "bool", "bytes"):
                # elements of unknown / mixed kinds need not be mutually orderable
                self.partial("sorted", (TypeError,), node, operands=(args[0],))
            t = Term("sorted", (args[0],), kind="list", node=node)
            t.elem_kind = ek  # type: ignore
            return t
        return None

    def x_all(self, args: List[V], kwargs: Dict[str, V], node: Any) -> Optional[V]:
        return self._allany("all", args, node)

    def x_any(self, args: List[V], kwargs: Dict[str, V], node: Any) -> Optional[V]:
        return self._allany("any", args, node)

    def _allany(self, op: str, args: List[V], node: Any) -> Optional[V]:
        x = args[0]
        if isinstance(x, (ListV, TupleV)) and x.concrete():
            ts = [self.truth(i) for i in x.items]
            if op == "all":
                if any(t is False for t in ts):
                    return Const(False)
                if all(t is True for t in ts):
                    return Const(True)
            else:
                if any(t is True for t in ts):
                    return Const(True)
                if all(t is False for t in ts):
                    return Const(False)
            if len(x.items) <= 4:
                # a short concrete sequence of undecided conditions: decide them one after the other
                for i in x.items:
                    t = self.decide(i, node)
                    if t and op == "any":
                        return Const(True)
                    if not t and op == "all":
                        return Const(False)
                return Const(op == "all")
        return Term(op, (x,), kind="bool", node=node)

    def x_copy_deepcopy(self, args: List[V], kwargs: Dict[str, V], node: Any) -> Optional[V]:
        x = args[0]
        t = Term("deepcopy", (x,), kind=self.kind_of(x), node=node)
        return t

    def x_copy_copy(self, args: List[V], kwargs: Dict[str, V], node: Any) -> Optional[V]:
        x = args[0]
        return Term("copy", (x,), kind=self.kind_of(x), node=node)

    def x_property(self, args: List[V], kwargs: Dict[str, V], node: Any) -> Optional[V]:
        return Term("property", tuple(args), node=node)

    def x_setattr(self, args: List[V], kwargs: Dict[str, V], node: Any) -> Optional[V]:
        if len(args) == 3:
            self.emit("write", node, how="setattr_call", target=args[0], attr=args[1], value=args[2])
            if isinstance(args[0], Inst) and isinstance(args[1], Const) and isinstance(args[1].value, str):
                args[0].attrs[args[1].value] = args[2]          # setattr(obj, "name", v) is obj.name = v
        return Const(None)

    def _concat(self, seqs: List[V], node: Any) -> V:
        items: List[Any] = []
        for x in seqs:
            x = self._unwrap1(x)
            if isinstance(x, (ListV, TupleV)):
                items.extend(x.items)           # Spread members stay Spread members
            elif isinstance(x, Const) and isinstance(x.value, (tuple, list, str)):
                items.extend(Const(i) for i in x.value)
            else:
                items.append(Spread(x))
        return ListV(items)

    def x_itertools_chain(self, args: List[V], kwargs: Dict[str, V], node: Any) -> Optional[V]:
        if any(isinstance(a, Spread) for a in args):
            return None
        return self._concat(list(args), node)

    def x_itertools_chain_from_iterable(self, args: List[V], kwargs: Dict[str, V], node: Any) -> Optional[V]:
        x = self._unwrap1(args[0]) if args else None
        if isinstance(x, (ListV, TupleV)) and x.concrete():
            return self._concat(list(x.items), node)
        return None

    # operator module: function spellings of the operators
    _OPERATOR_CMP = {"lt": "<", "le": "<=", "gt": ">", "ge": ">=", "eq": "==", "ne": "!=", "is_": "is", "is_not": "is not",
                     "contains": "in"}
    _OPERATOR_BIN = {"add": ast.Add(), "sub": ast.Sub(), "mul": ast.Mult(), "truediv": ast.Div(), "floordiv": ast.FloorDiv(),
                     "mod": ast.Mod(), "pow": ast.Pow(), "lshift": ast.LShift(), "rshift": ast.RShift(), "and_": ast.BitAnd(),
                     "or_": ast.BitOr(), "xor": ast.BitXor()}

    def x_operator_attrgetter(self, args: List[V], kwargs: Dict[str, V], node: Any) -> Optional[V]:
        if len(args) == 1 and isinstance(args[0], Const) and isinstance(args[0].value, str):
            return Term("attrgetter", (args[0].value,), kind="function", node=node)
        return None

    def x_operator_methodcaller(self, args: List[V], kwargs: Dict[str, V], node: Any) -> Optional[V]:
        if args and isinstance(args[0], Const) and isinstance(args[0].value, str) and not kwargs:
            t = Term("methodcaller", (args[0].value,) + tuple(args[1:]), kind="function", node=node)
            return t
        return None

    def x_operator_itemgetter(self, args: List[V], kwargs: Dict[str, V], node: Any) -> Optional[V]:
        if len(args) == 1:
            return Term("itemgetter", (args[0],), kind="function", node=node)
        return None

    def _operator_call(self, name: str, args: List[V], node: Any) -> Optional[V]:
        if name in self._OPERATOR_CMP and len(args) == 2:
            if name == "contains":
                return self.compare("in", args[1], args[0], node)
            return self.compare(self._OPERATOR_CMP[name], args[0], args[1], node)
        if name in self._OPERATOR_BIN and len(args) == 2:
            return self.binop(self._OPERATOR_BIN[name], args[0], args[1], node)
        if name == "not_" and len(args) == 1:
            t = self.truth(args[0])
            return Const(not t) if t is not None else Term("not", (args[0],), kind="bool", node=node)
        if name == "truth" and len(args) == 1:
            t = self.truth(args[0])
            return Const(t) if t is not None else args[0]
        if name == "getitem" and len(args) == 2:
            return self.getitem(args[0], args[1], node)
        return None

    def x_object(self, args: List[V], kwargs: Dict[str, V], node: Any) -> Optional[V]:
        if not args and not kwargs:
            # a fresh `object()`: a sentinel, identical to itself and to nothing else
            s_ = Sym(f"<object@{getattr(node, 'lineno', 0)}>", "object", ("sentinel",), exact=True)
            return s_
        return None

    def x_reversed(self, args: List[V], kwargs: Dict[str, V], node: Any) -> Optional[V]:
        x = self._unwrap1(args[0]) if args else None
        if isinstance(x, (ListV, TupleV)) and x.concrete():
            return ListV(list(reversed(x.items)))          # consumed by iteration only: a list stands for the iterator
        if x is not None:
            t = Term("reversed", (x,), kind="iterator", node=node)
            t.elem_kind = self._elem_kind(x)  # type: ignore
            return t
        return None

    def x_collections_defaultdict(self, args: List[V], kwargs: Dict[str, V], node: Any) -> Optional[V]:
        """defaultdict(list / dict / set / int): an (initially empty) table whose missing keys are created on access."""
        if len(args) == 1 and isinstance(args[0], Ext) and args[0].name in ("builtins.list", "builtins.dict", "builtins.set", "builtins.int") \
                and not kwargs:
            d = DictV([])
            d.default_factory = args[0].name.split(".")[1]  # type: ignore
            return d
        return None

    def x_filter(self, args: List[V], kwargs: Dict[str, V], node: Any) -> Optional[V]:
        # filter(f, S) with a program-defined predicate is the generator expression (x for x in S if f(x))
        if len(args) == 2 and isinstance(args[0], FuncV) and not kwargs:
            src = args[1]
            if not self._enumerable(src):                      # type: ignore[attr-defined]
                elem = self.generic_element(src, node)          # type: ignore[attr-defined]
                cond = self._invoke(args[0], [elem], {}, node)
                t_ = Term("gencomp", (elem, Term("src", (src,)), TupleV([cond])), kind="generator", node=node)
                t_.elem_kind = self.kind_of(elem)               # type: ignore[attr-defined]
                return t_
        return None

    def x_itertools_filterfalse(self, args: List[V], kwargs: Dict[str, V], node: Any) -> Optional[V]:
        # filterfalse(f, S) is (x for x in S if not f(x)); `c.__contains__` as the predicate is `x in c`
        if len(args) == 2 and not kwargs and not self._enumerable(args[1]):       # type: ignore[attr-defined]
            f, src = args
            elem = self.generic_element(src, node)                                  # type: ignore[attr-defined]
            if isinstance(f, FuncV):
                c0 = self._invoke(f, [elem], {}, node)
            elif isinstance(f, Term) and f.op in ("bound", "attr") and len(f.args) == 2 and f.args[1] == "__contains__":
                c0 = self.compare("in", elem, f.args[0], node)                      # type: ignore[attr-defined]
            else:
                return None
            t0 = self.truth(c0)
            cond = Const(not t0) if t0 is not None else Term("not", (c0,), kind="bool", node=node)
            t_ = Term("gencomp", (elem, Term("src", (src,)), TupleV([cond])), kind="generator", node=node)
            t_.elem_kind = self.kind_of(elem)                                       # type: ignore[attr-defined]
            return t_
        return None

    def x_functools_reduce(self, args: List[V], kwargs: Dict[str, V], node: Any) -> Optional[V]:
        # reduce(f, <known members>[, init]) is the left fold it names
        if len(args) in (2, 3) and not kwargs:
            src = self._unwrap1(args[1])
            if isinstance(src, (ListV, TupleV)) and src.concrete() and (len(args) == 3 or src.items):
                items = list(src.items)
                acc = args[2] if len(args) == 3 else items.pop(0)
                for x in items:
                    acc = self._invoke(args[0], [acc, x], {}, node)
                return acc
        return None

    def x_map(self, args: List[V], kwargs: Dict[str, V], node: Any) -> Optional[V]:
        if len(args) == 2 and isinstance(args[0], Term) and args[0].op in ("methodcaller", "attrgetter", "itemgetter"):
            src = self._unwrap1(args[1])
            if isinstance(src, (ListV, TupleV)) and src.concrete():
                # consumed by iteration only: a list stands for the iterator (the callable has no effect of its own)
                return ListV([self._invoke(args[0], [x], {}, node) for x in src.items])
        return Term("map", tuple(args), kind="iterator", node=node)

    # ------------------------------------------------------------------ methods of abstract containers
    def _call_bound(self, recv: V, attr: str, args: List[Any], kwargs: Dict[str, V], node: Any) -> V:
        if isinstance(recv, PropsV):
            self.emit("call", node, callee=f"Props.{attr}", args=args, kwargs=kwargs, resolved=True, recv=recv)
            if attr == "update":
                return recv.updated_with({k: v for k, v in kwargs.items() if not k.startswith("**")})
            if attr == "set" and len(args) == 2 and isinstance(args[0], Const):
                return recv.updated_with({args[0].value: args[1]})
            if attr == "get" and args and isinstance(args[0], Const):
                dflt = args[1] if len(args) > 1 else kwargs.get("default", NIL)
                self.emit("read_prop", node, prop=args[0].value, props=recv)
                if args[0].value in recv.vals:
                    return recv.vals[args[0].value]
                if recv.open:
                    return Term("pget", (recv, args[0]), node=node)
                return dflt
            return Term("mcall", (recv, attr), node=node)
        if attr in MUTATORS:
            self.emit("write", node, how="method:" + attr, target=recv, args=args)
        if isinstance(recv, ListV):
            if attr == "append" and args:
                recv.items.append(args[0])
                return Const(None)
            if attr == "extend" and args:
                self._list_extend(recv, args[0], node)
                return Const(None)
            if attr == "insert" and len(args) == 2:
                i = args[0]
                if isinstance(i, Const) and isinstance(i.value, int) and recv.concrete():
                    recv.items.insert(i.value, args[1])
                else:
                    recv.items.append(Spread(Term("inserted", (i, args[1]), node=node)))
                return Const(None)
            if attr == "sort":
                recv.sorted_by = kwargs.get("key")  # type: ignore
                return Const(None)
            if attr == "copy":
                return ListV(list(recv.items))
            if attr == "pop" and recv.concrete() and not kwargs and len(args) <= 1:
                i = args[0].value if args and isinstance(args[0], Const) and isinstance(args[0].value, int) else (-1 if not args else None)
                if i is not None:
                    if -len(recv.items) <= i < len(recv.items):
                        return recv.items.pop(i)
                    return self.implicit_raise(IndexError, node, op="pop", operands=(recv,))
            if attr == "reverse" and recv.concrete():
                recv.items.reverse()
                return Const(None)
            if attr == "clear":
                recv.items.clear()
                return Const(None)
        if isinstance(recv, DictV):
            if attr == "items":
                return Term("items", (recv,), kind="iterator", node=node)
            if attr == "keys":
                if recv.concrete():
                    return SetV([k for k, _ in recv.pairs()])      # a keys view: iterable, supports set algebra
                return Term("keys", (recv,), kind="sequence", node=node)
            if attr == "values":
                if recv.concrete():
                    return ListV([v for _, v in recv.pairs()])
                return Term("values", (recv,), kind="sequence", node=node)
            if attr == "get" and args:
                v = recv.lookup(args[0])
                if v is not None:
                    return v
                if recv.concrete() and all(isinstance(k, Const) for k, _ in recv.pairs()) and isinstance(args[0], Const):
                    return args[1] if len(args) > 1 else Const(None)
                if recv.concrete() and all(self._equal(k, args[0]) is False for k, _ in recv.pairs()):
                    return args[1] if len(args) > 1 else Const(None)      # no key can be equal to the argument
                return Term("dget", (recv,) + tuple(args), node=node)
            if attr == "update" and args:
                src = args[0]
                if isinstance(src, DictV):
                    for it in src.items:
                        if isinstance(it, Spread):
                            recv.items.append(it)
                        else:
                            recv.store(it[0], it[1])
                else:
                    recv.items.append(Spread(src))
                return Const(None)
            if attr == "copy":
                return DictV(list(recv.items))
            if attr == "setdefault" and args and recv.concrete():
                # d.setdefault(k, v)  ==  d[k] if k in d else (d[k] := v): the membership test case-splits on the
                # declared tokens exactly like `k in d` does
                present = self.compare("in", args[0], recv, node)
                if self.decide(present, node):
                    return self.getitem(recv, args[0], node)
                dv = args[1] if len(args) > 1 else Const(None)
                recv.store(self.resolve(args[0]), dv)
                return dv
        if isinstance(recv, SetV):
            if attr == "add" and args:
                self.hash_partial(args[0], node, "set.add")
                recv.items.append(args[0])
                return Const(None)
        if isinstance(recv, (StrV, Const)) and (recv.kind == "str"):
            if attr == "join" and args:
                self.emit("join", node, sep=recv, iterable=args[0])
                x = args[0]
                x = self._unwrap1(x)
                if isinstance(x, (ListV, TupleV)) and x.concrete() and isinstance(recv, Const):
                    pieces: List[Any] = []
                    for i, it in enumerate(x.items):
                        if i:
                            pieces.append(recv.value)
                        if isinstance(it, Const) and isinstance(it.value, str):
                            pieces.append(it.value)
                        elif isinstance(it, StrV):
                            pieces.extend(it.pieces)
                        else:
                            pieces.append((it, ""))
                    return StrV(pieces)
                return Term("join", (recv, x), kind="str", node=node)
            if attr == "format":
                if isinstance(recv, StrV) and any(not isinstance(pc, str) and self.kind_of(pc[0]) not in ("int", "float", "bool")
                                                  for pc in recv.pieces):
                    # the TEMPLATE itself embeds a runtime value (f-string / concatenation, then .format): braces inside
                    # that value are parsed as replacement fields
                    self.partial("format-template", (KeyError, IndexError, ValueError), node,
                                 operands=(recv,) + tuple(a for a in args if isinstance(a, V)))
                if isinstance(recv, Const):
                    import string as _string
                    pieces2: List[Any] = []
                    auto = 0
                    ok = True
                    try:
                        parsed = list(_string.Formatter().parse(recv.value))
                    except ValueError:
                        parsed = []
                        ok = False
                    for lit, field, spec, conv in parsed:
                        if lit:
                            pieces2.append(lit)
                        if field is None:
                            continue
                        if spec:
                            ok = False
                            break
                        try:
                            import _string as _cstring
                            first, rest = _cstring.formatter_field_name_split(field)
                            rest = list(rest)
                        except Exception:
                            ok = False
                            break
                        if first == "":
                            v = args[auto] if auto < len(args) else None
                            auto += 1
                        elif isinstance(first, int):
                            v = args[first] if first < len(args) else None
                        else:
                            v = kwargs.get(first)
                        if v is None:
                            ok = False
                            break
                        for is_attr, name in rest:      # {error.path} / {pair[0]}: attribute and index steps of the field
                            v = self.getattr(v, name, node) if is_attr else self.getitem(v, Const(name), node)
                        if isinstance(v, Const) and isinstance(v.value, str) and not conv:
                            pieces2.append(v.value)
                        elif isinstance(v, StrV) and not conv:
                            pieces2.extend(v.pieces)
                        else:
                            pieces2.append((v, conv or ""))
                    if ok:
                        return StrV(pieces2)
                return Term("format", (recv,) + tuple(args) + tuple(kwargs.values()), kind="str", node=node)
            if attr in ("rstrip", "lstrip", "strip") and len(args) <= 1 and (not args or (isinstance(args[0], Const) and isinstance(args[0].value, str))):
                chars = args[0].value if args else None
                if isinstance(recv, Const):
                    return Const(getattr(recv.value, attr)(chars) if chars is not None else getattr(recv.value, attr)())
                if isinstance(recv, StrV) and chars is not None:
                    pieces3 = list(recv.pieces)
                    exact = True
                    if attr in ("rstrip", "strip"):
                        if pieces3 and isinstance(pieces3[-1], str):
                            t_ = pieces3[-1].rstrip(chars)
                            if t_ == "" and len(pieces3) > 1:
                                exact = False         # the whole literal tail is stripped: the value before it decides
                            pieces3[-1] = t_
                        else:
                            exact = False
                    if attr in ("lstrip", "strip"):
                        if pieces3 and isinstance(pieces3[0], str):
                            t_ = pieces3[0].lstrip(chars)
                            if t_ == "" and len(pieces3) > 1:
                                exact = False
                            pieces3[0] = t_
                        else:
                            exact = False
                    if exact:
                        return StrV(pieces3)
                return Term("mcall", (recv, attr) + tuple(args), kind="str", node=node)
            if attr in ("split", "rsplit", "splitlines"):
                return Term("mcall", (recv, attr) + tuple(args), kind="list", node=node)
            if attr in ("encode",):
                return Term("mcall", (recv, attr) + tuple(args), kind="bytes", node=node)
            if attr in ("startswith", "endswith"):
                if isinstance(recv, Const) and args and isinstance(args[0], Const):
                    return Const(getattr(recv.value, attr)(args[0].value))
                return Term("mcall", (recv, attr) + tuple(args), kind="bool", node=node)
        self.emit("call", node, callee=f"{recv.kind}.{attr}", args=args, kwargs=kwargs, resolved=True, external=True, recv=recv)
        return Term("mcall", (recv, attr) + tuple(a for a in args if isinstance(a, V)), node=node)

    # ------------------------------------------------------------------ methods of symbolic receivers
    def _call_method_sym(self, recv: V, attr: str, args: List[Any], kwargs: Dict[str, V], node: Any) -> V:
        if isinstance(recv, Term) and recv.op == "call" and recv.args and recv.args[0] in ("random.Random", "random.SystemRandom") \
                and attr in ("randint", "randrange", "choice", "uniform", "random", "shuffle", "seed", "sample", "choices"):
            self.emit("private_rng", node, rng=recv, attr=attr)
            return self._call_ext(f"random.{attr}", args, kwargs, node)
        k = self.kind_of(recv)
        if attr == "__accept__":
            return self.accept(recv, args, kwargs, node)
        if isinstance(recv, Term) and recv.op == "call" and len(recv.args) >= 2 and recv.args[0] == "re.compile" \
                and attr in ("search", "match", "fullmatch") and len(recv.args) == 2 and not kwargs:
            # re.compile(P).search(s) is re.search(P, s): same compiled pattern, same result
            return self._call_ext(f"re.{attr}", [recv.args[1]] + list(args), kwargs, node)
        if k == "Props" and attr in ("update", "set", "get"):
            self.emit("call", node, callee=f"Props.{attr}", args=args, kwargs=kwargs, resolved=True, recv=recv)
            if attr == "get":
                return Term("pget", (recv,) + tuple(args), node=node)
            return Term("props_update", (recv, tuple(sorted(kwargs))), kind="Props", node=node)
        if attr in MUTATORS and k != "Props":
            self.emit("write", node, how="method:" + attr, target=recv, args=args)
        self.emit("call", node, callee=f"{k or '?'}.{attr}", args=args, kwargs=kwargs, resolved=k is not None,
                  recv=recv, external=True)
        kind = None
        if attr in ("has_errors",):
            kind = "bool"
        if attr in ("get_errors", "split", "rsplit"):
            kind = "list"
        if attr == "get" and args and k in ("dict", None) and self.known_fact(f"in({args[0].key()}, {recv.key()})") is False:
            return args[1] if len(args) > 1 else Const(None)      # the key is known to be absent on this path
        if attr == "items":
            return Term("items", (recv,), kind="iterator", node=node)
        if attr == "keys":
            return Term("keys", (recv,), kind="sequence", node=node)
        if attr == "values":
            return Term("values", (recv,), kind="sequence", node=node)
        if attr in ("join", "encode", "format", "lower", "upper", "strip"):
            kind = "bytes" if attr == "encode" else "str"
            if attr == "join":
                self.emit("join", node, sep=recv, iterable=args[0] if args else None)
        if k is None and isinstance(recv, (Sym, Term)) and not (isinstance(recv, Term) and recv.op in ("getattr",)):
            pass
        t = Term("mcall", (recv, attr) + tuple(a for a in args if isinstance(a, V)), kind=kind, node=node)
        if attr == "get_errors":
            t.elem_kind = "ValidationError"  # type: ignore   # contract of ValidationResult
        return t

    def accept(self, recv: V, args: List[Any], kwargs: Dict[str, V], node: Any) -> V:
        """member.__accept__(visitor, **ctx) on a symbolic schema: summarised by the visitor's contract."""
        visitor = args[0] if args else None
        ev = self.emit("accept", node, recv=recv, visitor=visitor, kwargs=dict(kwargs), args=args)
        if is_ell(recv) or is_nil(recv):
            return self.implicit_raise(AttributeError, node, op="accept", operands=(recv,))
        vname = visitor.cls.name if isinstance(visitor, Inst) else None
        model = getattr(self, "model", None)
        family = None
        if isinstance(visitor, Inst) and model is not None:
            for fam in ("Substitutor", "Validator", "Generator", "Representor"):
                if fam in model.visitors and visitor.cls.is_subclass_of(model.visitors[fam]):
                    family = fam
        ev.data["family"] = family
        if family == "Substitutor":
            se = self.prog.cls("substitution.errors.SubstitutionError")
            if self.may_be_caught(se):
                c = self.ch.choose(2, f"accept-raises:{getattr(node, 'lineno', 0)}:{recv.key()}")
                if c == 1:
                    ev.data["raised"] = se
                    raise _Raise(ExcV(se, [], node), node, implicit=True)
            s = Sym(f"subst({recv.key()},{kwargs.get('value', NIL).key()})", "Schema", ("accept", recv, kwargs.get("value")))
        elif family == "Validator":
            s = Sym(f"result({recv.key()})", "ValidationResult", ("accept", recv, kwargs.get("value")))
        elif family == "Generator":
            s = Sym(f"gen({recv.key()})", None, ("accept", recv))
        elif family == "Representor":
            s = Sym(f"repr({recv.key()})", "str", ("accept", recv, kwargs.get("indent")))
        else:
            s = Sym(f"accept({recv.key()})", None, ("accept", recv))
        ev.data["result"] = s
        return s
