"""L1 - DSL model: schema table, visitor table, singletons, overrides.

All slots are filled from the repository's source, never typed in.
"""
from __future__ import annotations

import ast
from dataclasses import dataclass, field
from typing import Any, Dict, List, Optional, Tuple

from .loader import AnalysisError, ClassInfo, FuncInfo, Module, Program


@dataclass
class SchemaType:
    cls: ClassInfo
    props_cls: Optional[ClassInfo]
    hook: Optional[str]                 # visit_int ...
    props: List[str]                    # prop names from getters
    prop_annot: Dict[str, str]          # prop -> annotation text
    getter_default: Dict[str, Optional[ast.expr]]  # second arg of self.get(name, default)
    update_keys: Dict[str, List[str]]   # method -> kw names at props.update sites
    facade_name: Optional[str] = None   # schema.<facade_name>

    @property
    def name(self) -> str:
        return self.cls.name

    def refinements(self) -> List[FuncInfo]:
        out = []
        for n, f in self.cls.methods.items():
            if n in ("__accept__", "__init__", "__getitem__", "__iter__", "__add__", "keys",
                     "_flatten_schemas"):
                continue
            if n.startswith("_") and n != "__call__":
                continue            # private helpers are analysed where the public refinements call them
            out.append(f)
        return out


class Model:
    def __init__(self, prog: Program) -> None:
        self.prog = prog
        self.schema_base = prog.cls("declaration.types._schema.Schema")
        self.props_base = prog.cls("declaration._props.Props")
        self.visitor_base = prog.cls("declaration._schema_visitor.SchemaVisitor")
        self.schemas: Dict[str, SchemaType] = {}
        self.by_hook: Dict[str, SchemaType] = {}
        self.visitors: Dict[str, ClassInfo] = {}
        self.singletons: Dict[str, Tuple[Module, ClassInfo, ast.expr]] = {}
        self.overrides: Dict[str, Any] = {}     # dunder -> FuncInfo
        self._build_schemas()
        self._build_visitors()
        self._build_singletons()
        self._build_overrides()
        self._build_facade()
        self._build_overrides_by_evaluation()

    # ------------------------------------------------------------------ schemas
    def _build_schemas(self) -> None:
        for ci in self.prog.subclasses(self.schema_base):
            props_cls = None
            for c in ci.mro():
                for b, sub in zip(c.bases, c.base_subscripts):
                    if isinstance(sub, ClassInfo) and sub.is_subclass_of(self.props_base):
                        props_cls = sub
                        break
                if props_cls:
                    break
            hook = None
            acc = ci.lookup("__accept__")
            if acc is not None and acc.cls is not None and acc.cls.qualname != self.schema_base.qualname:
                for n in ast.walk(acc.node):
                    if (isinstance(n, ast.Call) and isinstance(n.func, ast.Attribute)
                            and isinstance(n.func.value, ast.Name) and n.func.value.id == "visitor"
                            and n.func.attr.startswith("visit_")):
                        hook = n.func.attr
            props: List[str] = []
            annot: Dict[str, str] = {}
            gdef: Dict[str, Optional[ast.expr]] = {}
            if props_cls is not None:
                for c in reversed(props_cls.mro()):
                    for mname, m in c.methods.items():
                        if not any(isinstance(d, ast.Name) and d.id == "property" for d in m.node.decorator_list):
                            continue
                        key = None
                        dflt = None
                        for n in ast.walk(m.node):
                            if (isinstance(n, ast.Call) and isinstance(n.func, ast.Attribute)
                                    and n.func.attr == "get" and isinstance(n.func.value, ast.Name)
                                    and n.func.value.id == "self" and n.args
                                    and isinstance(n.args[0], ast.Constant)):
                                key = n.args[0].value
                                dflt = n.args[1] if len(n.args) > 1 else None
                        if key is not None:
                            if key != mname:
                                # getter named differently from its key: keep the key, note the name
                                pass
                            if key not in props:
                                props.append(key)
                            annot[key] = ast.unparse(m.node.returns) if m.node.returns else ""
                            gdef[key] = dflt
            upd: Dict[str, List[str]] = {}
            for mname, m in ci.methods.items():
                ks: List[str] = []
                for n in ast.walk(m.node):
                    if (isinstance(n, ast.Call) and isinstance(n.func, ast.Attribute)
                            and n.func.attr == "update"):
                        ks += [k.arg for k in n.keywords if k.arg]
                if ks:
                    upd[mname] = ks
            st = SchemaType(ci, props_cls, hook, props, annot, gdef, upd)
            self.schemas[ci.name] = st
            if hook and ci.qualname.startswith("d42.declaration") and \
                    (hook not in self.by_hook or (self.by_hook[hook].props_cls is None and props_cls is not None)):
                self.by_hook[hook] = st
        if len(self.schemas) < 13:
            raise AnalysisError(f"schema table has only {len(self.schemas)} entries")

    def concrete_builtin_schemas(self) -> List[SchemaType]:
        return [s for s in self.schemas.values()
                if s.cls.qualname.startswith("d42.declaration.types") and s.hook
                and s.cls.name not in ("GenericTypeAliasSchema",)]

    # ------------------------------------------------------------------ visitors
    def _build_visitors(self) -> None:
        for ci in self.prog.subclasses(self.visitor_base):
            self.visitors[ci.name] = ci
        for need in ("Validator", "Generator", "Representor", "Substitutor", "SubstitutorValidator"):
            if need not in self.visitors:
                raise AnalysisError(f"visitor class {need} not found")

    def visit_methods(self, visitor: str) -> Dict[str, FuncInfo]:
        ci = self.visitors[visitor]
        out: Dict[str, FuncInfo] = {}
        for hook in self.by_hook:
            f = ci.lookup(hook)
            if f is not None and f.cls is not None and f.cls.qualname != self.visitor_base.qualname:
                out[hook] = f
        return out

    # ------------------------------------------------------------------ singletons
    def _build_singletons(self) -> None:
        for mod in self.prog.modules.values():
            for name, b in mod.bindings.items():
                if b.kind == "assign" and isinstance(b.node, ast.Call) and name.startswith("_"):
                    r = self.prog.resolve_expr(mod, b.node.func)
                    if isinstance(r, ClassInfo):
                        self.singletons[f"{mod.name}.{name}"] = (mod, r, b.node)

    # ------------------------------------------------------------------ overrides
    def _build_overrides(self) -> None:
        """Schema.__override__("__or__", union) / Schema.__override__(Schema.__eq__.__name__, eq)."""
        for mod in self.prog.modules.values():
            for st in mod.toplevel:
                if not (isinstance(st, ast.Expr) and isinstance(st.value, ast.Call)):
                    continue
                c = st.value
                if not (isinstance(c.func, ast.Attribute) and c.func.attr == "__override__"):
                    continue
                recv = self.prog.resolve_expr(mod, c.func.value)
                if not (isinstance(recv, ClassInfo) and recv.qualname == self.schema_base.qualname):
                    continue
                args = list(c.args)
                if len(args) == 1 and isinstance(args[0], ast.Starred) and isinstance(args[0].value, ast.Name):
                    # Schema.__override__(*_WIRING) with a module-level  _WIRING = ("__or__", union)
                    for st2 in mod.toplevel:
                        tgt = st2.targets[0] if isinstance(st2, ast.Assign) and len(st2.targets) == 1 else (
                            st2.target if isinstance(st2, ast.AnnAssign) else None)
                        val = getattr(st2, "value", None)
                        if isinstance(tgt, ast.Name) and tgt.id == args[0].value.id and isinstance(val, (ast.Tuple, ast.List)):
                            args = list(val.elts)
                if len(args) != 2:
                    continue
                a0 = args[0]
                dunder = None
                if isinstance(a0, ast.Constant) and isinstance(a0.value, str):
                    dunder = a0.value
                elif isinstance(a0, ast.Attribute) and a0.attr == "__name__":
                    inner = a0.value
                    if isinstance(inner, ast.Attribute):
                        dunder = inner.attr                     # Schema.__eq__.__name__
                    elif isinstance(inner, ast.Call) and isinstance(inner.func, ast.Name) and inner.func.id == "getattr" \
                            and len(inner.args) >= 2 and isinstance(inner.args[1], ast.Constant) and isinstance(inner.args[1].value, str):
                        dunder = inner.args[1].value            # getattr(Schema, "__invert__").__name__
                fn = self.prog.resolve_expr(mod, args[1])
                if dunder:
                    self.overrides[dunder] = (fn, mod, st)

    def _build_overrides_by_evaluation(self) -> None:
        """The installation may go through a helper (`_install(Schema, {"__or__": union})`): evaluate the top-level call
        statements of the modules that mention __override__ and collect the calls that reach Schema.__override__."""
        from .engine import Interp
        from .interp import Frame
        from .values import Const, FuncV
        for mod in self.prog.modules.values():
            src_mentions = any(isinstance(n, ast.Attribute) and n.attr == "__override__" for st in mod.toplevel for n in ast.walk(st))
            if not src_mentions:
                continue
            for st in mod.toplevel:
                if not (isinstance(st, ast.Expr) and isinstance(st.value, ast.Call)):
                    continue
                if isinstance(st.value.func, ast.Attribute) and st.value.func.attr == "__override__" \
                        and any(v[2] is st for v in self.overrides.values()):
                    continue            # the direct form was read above
                try:
                    it = Interp(self.prog, self, unroll=4)
                    paths = it.run_paths(lambda i, st=st, mod=mod: i.eval(st.value, Frame(None, mod, {})), max_paths=50)
                except Exception:
                    continue
                for p in paths:
                    for e in p.events:
                        if e.kind == "call" and str(e.data.get("callee", "")).endswith(f"{self.schema_base.name}.__override__"):
                            a = e.data.get("args") or []
                            if len(a) == 2 and isinstance(a[0], Const) and isinstance(a[0].value, str) and isinstance(a[1], FuncV) \
                                    and a[0].value not in self.overrides:
                                self.overrides[a[0].value] = (a[1].func, mod, st)

    def _build_facade(self) -> None:
        fac = self.prog.cls("declaration._schema_facade.SchemaFacade")
        for mname, m in fac.methods.items():
            for n in ast.walk(m.node):
                if isinstance(n, ast.Return) and isinstance(n.value, ast.Call):
                    r = self.prog.resolve_expr(fac.module, n.value.func)
                    if isinstance(r, ClassInfo) and r.name in self.schemas:
                        self.schemas[r.name].facade_name = mname
        self.facade = fac

    def facade_instantiable(self) -> List[SchemaType]:
        return [s for s in self.schemas.values() if s.facade_name]
