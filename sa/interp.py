"""L2 - path-sensitive abstract interpreter over the Python subset used by d42.

A straight-line evaluator that is re-executed once per *decision trail*: whenever a
condition cannot be decided in the abstract domain the Chooser supplies the branch, the
decision is recorded as a path fact, and `enumerate_paths` explores every trail (DFS).
Nothing of the analysed package is executed; conditions over runtime values are never
solved, only recorded as uninterpreted predicates.
"""
from __future__ import annotations

import ast
import builtins as _bi
import re as _re
from dataclasses import dataclass, field
from typing import Any, Callable, Dict, Iterator, List, Optional, Tuple

from .loader import ClassInfo, FuncInfo, Module, Program, mangle
from .values import (ELL, NIL, ClassV, Const, DictV, ExcV, Ext, FuncV, Inst, ListV, ModV, PropsV,
                     SchemaV, SetV, Spread, StrV, Sym, Term, TupleV, V, is_ell, is_nil, kind_is,
                     kind_may_be)


class PathLimit(Exception):
    pass


class _Return(Exception):
    def __init__(self, value: V) -> None:
        self.value = value


class _Raise(Exception):
    def __init__(self, exc: ExcV, node: Any, implicit: bool = False) -> None:
        self.exc = exc
        self.node = node
        self.implicit = implicit


class _Break(Exception):
    pass


class _Continue(Exception):
    pass


class Chooser:
    def __init__(self, prefix: List[int]) -> None:
        self.prefix = prefix
        self.pos = 0
        self.log: List[Tuple[int, int, str]] = []

    def choose(self, n: int, tag: str) -> int:
        c = self.prefix[self.pos] if self.pos < len(self.prefix) else 0
        self.pos += 1
        self.log.append((c, n, tag))
        if len(self.log) > 400:
            raise PathLimit("too many decisions on one path")
        return c


@dataclass
class Event:
    kind: str                 # call | accept | raise | partial | write | read_prop | cond | note | unsupported | store
    node: Any
    func: Optional[str]       # qualname of the function whose body contains `node`
    data: Dict[str, Any]
    nfacts: int               # number of path facts when the event happened
    stack: Tuple[str, ...] = ()
    handlers: Tuple[Any, ...] = ()

    def loc(self, prog: Program) -> str:
        f = prog.functions.get(self.func or "")
        path = f.module.path if f else "?"
        return f"{path}:{getattr(self.node, 'lineno', 0)}"


@dataclass
class Path:
    outcome: str              # return | raise | limit
    value: Optional[V]
    events: List[Event]
    facts: List[Tuple[str, V, bool]]
    decisions: List[Tuple[int, int, str]]
    exc_node: Any = None
    implicit: bool = False

    def fact(self, key: str) -> Optional[bool]:
        for k, _, b in self.facts:
            if k == key:
                return b
        return None

    def events_of(self, kind: str) -> List[Event]:
        return [e for e in self.events if e.kind == kind]


@dataclass
class Frame:
    func: Optional[FuncInfo]
    module: Module
    locals: Dict[str, V]
    cls: Optional[ClassInfo] = None
    self_val: Optional[V] = None
    closure: Optional["Frame"] = None

    @property
    def qualname(self) -> str:
        return self.func.qualname if self.func else f"{self.module.name}.<module>"


# partial operations: name -> exception classes it may raise (see DESIGN appendix A)
PARTIAL_CALLS: Dict[str, Tuple[type, ...]] = {
    "builtins.round": (OverflowError, ValueError),
    "builtins.int": (OverflowError, ValueError),
    "builtins.float": (ValueError, OverflowError),
    "math.floor": (OverflowError, ValueError),
    "math.ceil": (OverflowError, ValueError),
    "math.trunc": (OverflowError, ValueError),
    "re.compile": (_re.error, OverflowError),
    "re.search": (_re.error, OverflowError),
    "re.match": (_re.error, OverflowError),
    "re.fullmatch": (_re.error, OverflowError),
    "random.randint": (ValueError,),
    "random.randrange": (ValueError,),
    "random.choice": (IndexError,),
    "builtins.next": (StopIteration,),
    "builtins.chr": (ValueError, OverflowError),
    "builtins.hex": (TypeError,), "builtins.oct": (TypeError,), "builtins.bin": (TypeError,),
    "re._parser.parse": (_re.error, OverflowError),
    "sre_parse.parse": (_re.error, OverflowError),
}

TOTAL_CALLS = {
    "builtins.len", "builtins.isinstance", "builtins.type", "builtins.repr", "builtins.str",
    "builtins.list", "builtins.tuple", "builtins.set", "builtins.dict", "builtins.sorted",
    "builtins.enumerate", "builtins.range", "builtins.max", "builtins.min", "builtins.getattr",
    "builtins.all", "builtins.any", "builtins.map", "builtins.hash", "builtins.iter",
    "builtins.callable", "builtins.issubclass", "builtins.bool", "builtins.setattr",
    "builtins.property", "builtins.frozenset", "builtins.zip", "builtins.print", "builtins.abs",
    "copy.deepcopy", "copy.copy", "math.isclose", "math.isfinite", "math.isnan", "math.isinf",
    "typing.cast", "random.uniform", "random.seed", "random.shuffle", "random.random",
    "uuid.uuid4", "datetime.datetime.utcnow", "datetime.date.today", "datetime.timedelta",
    "datetime.datetime.now", "collections.defaultdict", "os.linesep",
    "itertools.count", "itertools.chain", "itertools.filterfalse",      # lazy: nothing is walked when they are built
    "builtins.object.__repr__", "builtins.object.__str__",      # '<T object at 0x..>': no conversion of the value itself
}


def exc_class_of(name: str) -> Any:
    if name.startswith("builtins."):
        return getattr(_bi, name.split(".", 1)[1], None)
    if name == "re.error":
        return _re.error
    return None


class InterpCore:
    def __init__(self, prog: Program, *, max_depth: int = 6, unroll: int = 2,
                 contracts: Optional[Dict[str, Any]] = None) -> None:
        self.prog = prog
        self.max_depth = max_depth
        self.unroll = unroll
        self.contracts = contracts or {}
        self._module_cache: Dict[Tuple[str, str], V] = {}
        # per path state
        self.ch: Chooser = Chooser([])
        self.events: List[Event] = []
        self.facts: List[Tuple[str, V, bool]] = []
        self.kinds: Dict[int, str] = {}
        self.notkinds: Dict[int, List[str]] = {}
        self.elem_notkinds: Dict[str, List[str]] = {}
        self.aliases: Dict[Any, V] = {}
        self.stack: List[Frame] = []
        self.handlers: List[List[Any]] = []
        self.steps = 0

    # ------------------------------------------------------------------ driving
    def run_paths(self, fn: Callable[[Any], V], max_paths: int = 4000) -> List[Path]:
        """Enumerate every decision trail of `fn`."""
        out: List[Path] = []
        todo: List[List[int]] = [[]]
        while todo:
            prefix = todo.pop()
            self._reset(prefix)
            try:
                try:
                    val = fn(self)
                    p = Path("return", val, self.events, self.facts, self.ch.log)
                except _Return as r:
                    p = Path("return", r.value, self.events, self.facts, self.ch.log)
                except _Raise as r:
                    p = Path("raise", r.exc, self.events, self.facts, self.ch.log, r.node, r.implicit)
                except (_Break, _Continue):
                    p = Path("return", Const(None), self.events, self.facts, self.ch.log)
            except PathLimit as e:
                p = Path("limit", None, self.events, self.facts, self.ch.log)
            except RecursionError:
                p = Path("limit", None, self.events, self.facts, self.ch.log)
            out.append(p)
            log = self.ch.log
            for i in range(len(prefix), len(log)):
                c, n, _ = log[i]
                for alt in range(c + 1, n):
                    todo.append([x[0] for x in log[:i]] + [alt])
            if len(out) >= max_paths:
                out.append(Path("limit", None, [], [], []))
                break
        return out

    def _reset(self, prefix: List[int]) -> None:
        self.ch = Chooser(prefix)
        self.events = []
        self.facts = []
        self.kinds = {}
        self.notkinds = {}
        self.elem_notkinds = {}
        self.aliases = {}
        self.stack = []
        self.handlers = []
        self.steps = 0

    def call_function(self, func: FuncInfo, args: List[V], kwargs: Optional[Dict[str, V]] = None,
                      self_val: Optional[V] = None) -> V:
        return self._invoke(FuncV(func, self_val), args, kwargs or {}, None)

    # ------------------------------------------------------------------ events / facts
    def emit(self, kind: str, node: Any, **data: Any) -> Event:
        fr = self.stack[-1] if self.stack else None
        ev = Event(kind, node, fr.qualname if fr else None, data, len(self.facts),
                   tuple(f.qualname for f in self.stack),
                   tuple(tuple(h) for h in self.handlers))
        self.events.append(ev)
        return ev

    def add_fact(self, key: str, term: V, val: bool) -> None:
        self.facts.append((key, term, val))

    def known_fact(self, key: str) -> Optional[bool]:
        for k, _, b in self.facts:
            if k == key:
                return b
        return None

    def decide(self, v: V, node: Any = None) -> bool:
        """Truth value of an abstract value; forks when unknown."""
        t = self.truth(v)
        if t is not None:
            return t
        neg = False
        while isinstance(v, Term) and v.op == "not":
            v = v.args[0]
            neg = not neg
        key = v.key()
        known = self.known_fact(key)
        if known is None:
            c = self.ch.choose(2, key)
            known = (c == 0)
            self.add_fact(key, v, known)
            self.emit("cond", node, term=v, value=known)
            self._refine(v, known)
        return (not known) if neg else known

    def _refine(self, v: V, val: bool) -> None:
        # `any(isinstance(x, K) for x in S)` is False  =>  no element of S is a K
        if isinstance(v, Term) and v.op == "any" and not val and isinstance(v.args[0], Term) \
                and v.args[0].op in ("gencomp", "listcomp"):
            elt = v.args[0].args[0]
            if isinstance(elt, Term) and elt.op == "isinstance" and isinstance(elt.args[0], Sym) \
                    and elt.args[0].origin and elt.args[0].origin[0] in ("elem", "key") and isinstance(elt.args[1], str):
                src = elt.args[0].origin[1]
                self.elem_notkinds.setdefault(src.key(), []).extend(elt.args[1].split("|"))
        # `all(not isinstance(x, K1) and not isinstance(x, K2) for x in S)` is True  =>  the same (De Morgan)
        if isinstance(v, Term) and v.op == "all" and val and isinstance(v.args[0], Term) \
                and v.args[0].op in ("gencomp", "listcomp"):
            def negs(t: Any) -> Optional[List[Any]]:
                if isinstance(t, Term) and t.op == "and":
                    out: List[Any] = []
                    for a in t.args:
                        r = negs(a)
                        if r is None:
                            return None
                        out += r
                    return out
                if isinstance(t, Term) and t.op == "not" and isinstance(t.args[0], Term) and t.args[0].op == "isinstance":
                    return [t.args[0]]
                return None
            for elt in negs(v.args[0].args[0]) or []:
                if isinstance(elt.args[0], Sym) and elt.args[0].origin and elt.args[0].origin[0] in ("elem", "key") \
                        and isinstance(elt.args[1], str):
                    src = elt.args[0].origin[1]
                    self.elem_notkinds.setdefault(src.key(), []).extend(elt.args[1].split("|"))
        # `type(x) is K` / `x.__class__ is K`  =>  x is exactly a K
        if isinstance(v, Term) and v.op == "is" and val and len(v.args) == 2:
            for tx, kx in ((v.args[0], v.args[1]), (v.args[1], v.args[0])):
                if isinstance(kx, Ext) and kx.name.startswith("builtins."):
                    x0 = None
                    if isinstance(tx, Term) and tx.op == "attr" and len(tx.args) == 2 and tx.args[1] == "__class__":
                        x0 = tx.args[0]
                    elif isinstance(tx, Term) and tx.op == "call" and len(tx.args) == 2 and tx.args[0] == "builtins.type":
                        x0 = tx.args[1]
                    uid0 = getattr(x0, "uid", None)
                    if uid0 is not None:
                        self.kinds[uid0] = kx.name.split(".", 1)[1]
        if isinstance(v, Term) and v.op == "isinstance":
            x, k = v.args
            uid = getattr(x, "uid", None)
            if uid is not None and isinstance(k, str):
                if val:
                    if "|" not in k:
                        self.kinds[uid] = k
                else:
                    for kk in k.split("|"):
                        self.notkinds.setdefault(uid, []).append(kk)

    def truth(self, v: V) -> Optional[bool]:
        if isinstance(v, Const):
            return bool(v.value)
        if is_nil(v):
            return False
        if isinstance(v, (ListV, TupleV, SetV, DictV)):
            if v.concrete():
                return len(v.items) > 0
            if any(not isinstance(i, Spread) for i in v.items):
                return True
            return None
        if isinstance(v, StrV):
            if any(isinstance(p, str) and p for p in v.pieces):
                return True
            return None
        if isinstance(v, (SchemaV, Inst, FuncV, ClassV, ModV, PropsV, ExcV)):
            return True
        if isinstance(v, Term) and v.op == "not":
            t = self.truth(v.args[0])
            return None if t is None else (not t)
        if isinstance(v, Sym) and v.kind in ("Schema", "function", "ValidationResult"):
            # (a th.PathHolder defines __len__: the root path is falsy - its truth value is not known; neither is that of a
            # MEMBER schema: no built-in schema class defines __bool__ / __len__, a user's custom type may)
            if v.kind == "Schema" and v.origin and v.origin[0] == "member":
                return None
            return True
        return None

    def resolve(self, v: V) -> V:
        """A symbolic key that a membership test unified with a token of a concrete table."""
        uid = getattr(v, "uid", None)
        if uid is None and isinstance(v, Term):
            uid = "T:" + v.key()          # a pure term is identified by its text
        if uid is not None and uid in self.aliases:
            return self.aliases[uid]
        return v

    def kind_of(self, v: V) -> Optional[str]:
        uid = getattr(v, "uid", None)
        if uid is not None and uid in self.kinds:
            return self.kinds[uid]
        return v.kind

    # ------------------------------------------------------------------ statements
    def exec_block(self, stmts: List[ast.stmt], fr: Frame) -> None:
        for i, st in enumerate(stmts):
            if isinstance(st, ast.For) and i + 1 < len(stmts) and self._search_loop(st, stmts[i + 1], fr):
                continue            # the loop was executed there (or summarised: then _Return was raised)
            if isinstance(st, ast.For) and self._guard_loop(st, fr):
                continue
            self.exec_stmt(st, fr)

    def _guard_loop(self, st: ast.For, fr: Frame) -> bool:
        """Loop summary of the guard idiom over a source that cannot be enumerated:
            for t in S:
                if c: raise E        ==>    if any(c for t in S): raise E
        so that falling out of the loop carries the universal fact (no member of S satisfies c)."""
        if st.orelse or len(st.body) != 1:
            return False
        b = st.body[0]
        if not (isinstance(b, ast.If) and not b.orelse and len(b.body) == 1 and isinstance(b.body[0], ast.Raise)):
            return False
        if any(isinstance(x, (ast.NamedExpr, ast.Yield, ast.YieldFrom, ast.Await)) for x in ast.walk(b.test)):
            return False
        it = self.eval(st.iter, fr)
        self.steps += 1
        if self._enumerable(it):                                # type: ignore[attr-defined]
            self.s_For(st, fr, it)
            return True
        tmp = f"$it{getattr(st, 'lineno', 0)}"
        fr.locals[tmp] = it
        gen = ast.GeneratorExp(elt=b.test, generators=[ast.comprehension(
            target=st.target, iter=ast.copy_location(ast.Name(id=tmp, ctx=ast.Load()), st.iter), ifs=[], is_async=0)])
        ast.copy_location(gen, st)
        try:
            comp = self._comp(gen, fr, "gen")                   # type: ignore[attr-defined]
        finally:
            fr.locals.pop(tmp, None)
        v = self._allany("any", [comp], st)                     # type: ignore[attr-defined]
        if self.decide(v, b.test):
            self.assign(st.target, self.generic_element(it, st), fr, st)     # type: ignore[attr-defined]
            self.exec_stmt(b.body[0], fr)
        return True

    def _search_loop(self, st: ast.For, nxt: ast.stmt, fr: Frame) -> bool:
        """Loop summary of the search idiom over a source that cannot be enumerated:
            for t in S:                      return any(c for t in S)        (A, B) == (True, False)
                if c: return A        ==>    return not any(c for t in S)    (A, B) == (False, True)
            return B
        so that the `False` outcome carries the universal fact (no member of S satisfies c)."""
        if st.orelse or len(st.body) != 1 or not isinstance(nxt, ast.Return):
            return False
        b = st.body[0]
        if not (isinstance(b, ast.If) and not b.orelse and len(b.body) == 1 and isinstance(b.body[0], ast.Return)):
            return False
        a_, b_ = b.body[0].value, nxt.value
        if not (isinstance(a_, ast.Constant) and isinstance(b_, ast.Constant) and isinstance(a_.value, bool)
                and isinstance(b_.value, bool) and a_.value is not b_.value):
            return False
        if any(isinstance(x, (ast.NamedExpr, ast.Yield, ast.YieldFrom, ast.Await)) for x in ast.walk(b.test)):
            return False
        it = self.eval(st.iter, fr)
        if self._enumerable(it):                                # type: ignore[attr-defined]
            self.steps += 1
            self.s_For(st, fr, it)
            return True
        tmp = f"$it{getattr(st, 'lineno', 0)}"
        fr.locals[tmp] = it
        gen = ast.GeneratorExp(elt=b.test, generators=[ast.comprehension(
            target=st.target, iter=ast.copy_location(ast.Name(id=tmp, ctx=ast.Load()), st.iter), ifs=[], is_async=0)])
        ast.copy_location(gen, st)
        try:
            comp = self._comp(gen, fr, "gen")                   # type: ignore[attr-defined]
        finally:
            fr.locals.pop(tmp, None)
        v = self._allany("any", [comp], st)                     # type: ignore[attr-defined]
        if a_.value is False:
            t = self.truth(v)
            v = Const(not t) if t is not None else Term("not", (v,), kind="bool", node=st)
        raise _Return(v)

    def exec_stmt(self, st: ast.stmt, fr: Frame) -> None:
        self.steps += 1
        if self.steps > 20000:
            raise PathLimit("step limit")
        m = getattr(self, "s_" + type(st).__name__, None)
        if m is None:
            self.emit("unsupported", st, what=type(st).__name__)
            return
        m(st, fr)

    def s_Expr(self, st: ast.Expr, fr: Frame) -> None:
        if isinstance(st.value, ast.Constant):
            return
        self.eval(st.value, fr)

    def s_Pass(self, st: ast.Pass, fr: Frame) -> None:
        pass

    def s_Return(self, st: ast.Return, fr: Frame) -> None:
        v = self.eval(st.value, fr) if st.value is not None else Const(None)
        raise _Return(v)

    def s_Raise(self, st: ast.Raise, fr: Frame) -> None:
        if st.exc is None:
            cur = fr.locals.get("$exc")
            if isinstance(cur, ExcV):
                raise _Raise(cur, st)
            raise _Raise(ExcV(RuntimeError, [], st), st)
        v = self.eval(st.exc, fr)
        if isinstance(v, ClassV) or isinstance(v, Ext):
            v = self._construct_exc(v, [], st)
        if not isinstance(v, ExcV):
            v2 = ExcV(Exception, [v], st)
            v2.unknown = True  # type: ignore
            v = v2
        self.emit("raise", st, exc=v)
        raise _Raise(v, st)

    def s_Assert(self, st: ast.Assert, fr: Frame) -> None:
        v = self.eval(st.test, fr)
        if not self.decide(v, st):
            exc = ExcV(AssertionError, [], st)
            self.emit("raise", st, exc=exc)
            raise _Raise(exc, st)

    def s_If(self, st: ast.If, fr: Frame) -> None:
        v = self.eval(st.test, fr)
        if self.decide(v, st.test):
            self.exec_block(st.body, fr)
        else:
            self.exec_block(st.orelse, fr)

    def s_Assign(self, st: ast.Assign, fr: Frame) -> None:
        v = self.eval(st.value, fr)
        for t in st.targets:
            self.assign(t, v, fr, st)

    def s_AnnAssign(self, st: ast.AnnAssign, fr: Frame) -> None:
        if st.value is not None:
            v = self.eval(st.value, fr)
            self.assign(st.target, v, fr, st)

    def s_AugAssign(self, st: ast.AugAssign, fr: Frame) -> None:
        cur = self.eval(st.target, fr)  # type: ignore
        rhs = self.eval(st.value, fr)
        if isinstance(st.op, ast.Add) and isinstance(cur, ListV):
            # in-place extend
            self._list_extend(cur, rhs, st)
            self.assign(st.target, cur, fr, st, aug=True)
            return
        v = self.binop(st.op, cur, rhs, st)
        self.assign(st.target, v, fr, st, aug=True)

    def s_Delete(self, st: ast.Delete, fr: Frame) -> None:
        for t in st.targets:
            if isinstance(t, ast.Subscript):
                recv = self.eval(t.value, fr)
                self.emit("write", st, how="del", target=recv, node_target=t)
            elif isinstance(t, ast.Attribute):
                recv = self.eval(t.value, fr)
                self.emit("write", st, how="delattr", target=recv, node_target=t)

    def _append_loop(self, st: ast.For) -> Optional[Tuple[str, ast.expr, List[ast.expr]]]:
        """`for t in S: [if c:] acc.append(e)`  /  `for t in S: if c: continue; acc.append(e)`  ->  (acc, e, [conds])."""
        if st.orelse:
            return None
        body = list(st.body)
        conds: List[ast.expr] = []
        if len(body) == 2 and isinstance(body[0], ast.If) and not body[0].orelse and len(body[0].body) == 1 \
                and isinstance(body[0].body[0], ast.Continue):
            conds.append(ast.copy_location(ast.UnaryOp(op=ast.Not(), operand=body[0].test), body[0].test))
            body = body[1:]
        if len(body) == 1 and isinstance(body[0], ast.If) and not body[0].orelse and len(body[0].body) == 1:
            conds.append(body[0].test)
            body = body[0].body
        # `acc += [e]` and `acc.extend([e])` are `acc.append(e)`
        if len(body) == 1 and isinstance(body[0], ast.AugAssign) and isinstance(body[0].op, ast.Add) and isinstance(body[0].target, ast.Name) \
                and isinstance(body[0].value, ast.List) and len(body[0].value.elts) == 1 and not isinstance(body[0].value.elts[0], ast.Starred):
            call = ast.Call(func=ast.Attribute(value=ast.Name(id=body[0].target.id, ctx=ast.Load()), attr="append", ctx=ast.Load()),
                            args=[body[0].value.elts[0]], keywords=[])
            body = [ast.copy_location(ast.Expr(value=ast.copy_location(call, body[0])), body[0])]
            ast.fix_missing_locations(body[0])
        elif len(body) == 1 and isinstance(body[0], ast.Expr) and isinstance(body[0].value, ast.Call) \
                and isinstance(body[0].value.func, ast.Attribute) and body[0].value.func.attr == "extend" \
                and isinstance(body[0].value.func.value, ast.Name) and len(body[0].value.args) == 1 \
                and isinstance(body[0].value.args[0], ast.List) and len(body[0].value.args[0].elts) == 1 \
                and not isinstance(body[0].value.args[0].elts[0], ast.Starred) and not body[0].value.keywords:
            old = body[0].value
            call = ast.Call(func=ast.Attribute(value=old.func.value, attr="append", ctx=ast.Load()), args=[old.args[0].elts[0]], keywords=[])
            body = [ast.copy_location(ast.Expr(value=ast.copy_location(call, old)), body[0])]
            ast.fix_missing_locations(body[0])
        if len(body) != 1 or not isinstance(body[0], ast.Expr):
            return None
        c = body[0].value
        if not (isinstance(c, ast.Call) and isinstance(c.func, ast.Attribute) and c.func.attr in ("append", "add")
                and isinstance(c.func.value, ast.Name) and len(c.args) == 1 and not c.keywords
                and not isinstance(c.args[0], ast.Starred)):
            return None
        acc = c.func.value.id
        for n in [c.args[0]] + conds + [st.target]:
            if any(isinstance(x, ast.Name) and x.id == acc for x in ast.walk(n)):
                return None      # the element depends on the accumulator: not a comprehension
            if any(isinstance(x, (ast.NamedExpr, ast.Yield, ast.YieldFrom, ast.Await)) for x in ast.walk(n)):
                return None
        return acc + ":" + c.func.attr, c.args[0], conds

    def s_For(self, st: ast.For, fr: Frame, it: Optional[V] = None) -> None:
        if it is None:
            it = self.eval(st.iter, fr)
        # loop summary: an accumulation loop over a source that cannot be enumerated is the comprehension it spells
        # (`acc.extend([e for t in S if c])`), so that its result keeps its relation to ALL of S (length, members)
        pat = self._append_loop(st)
        how = ""
        if pat is not None:
            name_, how = pat[0].split(":")
            pat = (name_, pat[1], pat[2])
            if not isinstance(fr.locals.get(name_), ListV if how == "append" else SetV):
                pat = None
        if pat is not None and not self._enumerable(it) \
                and not (isinstance(it, Term) and it.op == "range" and all(isinstance(a, Const) for a in it.args)):
            tmp = f"$it{getattr(st, 'lineno', 0)}"
            fr.locals[tmp] = it
            comp = (ast.ListComp if how == "append" else ast.SetComp)(elt=pat[1], generators=[ast.comprehension(
                target=st.target, iter=ast.copy_location(ast.Name(id=tmp, ctx=ast.Load()), st.iter), ifs=pat[2], is_async=0)])
            ast.copy_location(comp, st)
            try:
                res = self._comp(comp, fr, "list" if how == "append" else "set")           # type: ignore[attr-defined]
            finally:
                fr.locals.pop(tmp, None)
            acc = fr.locals[pat[0]]
            self._list_extend(acc, res, st)                  # type: ignore[attr-defined]
            self.emit("write", st, how="method:" + how, target=acc, args=[res.args[0]] if isinstance(res, Term) and res.args else [],
                      summarised=True)
            return
        broke = False
        for item in self.iterate(it, st):
            self.assign(st.target, item, fr, st)
            try:
                self.exec_block(st.body, fr)
            except _Break:
                broke = True
                break
            except _Continue:
                continue
        if not broke:
            self.exec_block(st.orelse, fr)

    def _iterator_protocol_loop(self, st: ast.While, fr: Frame) -> Optional[Tuple[ast.expr, V]]:
        """`while (x := next(it, SENTINEL)) is not SENTINEL: body` where `it` is a local bound to iter(S): the loop
        `for x in S: body`.  Returns (target, S)."""
        t = st.test
        if not (isinstance(t, ast.Compare) and len(t.ops) == 1 and isinstance(t.ops[0], ast.IsNot) and isinstance(t.left, ast.NamedExpr)):
            return None
        call = t.left.value
        if not (isinstance(call, ast.Call) and isinstance(call.func, ast.Name) and call.func.id == "next" and len(call.args) == 2
                and isinstance(call.args[0], ast.Name) and not call.keywords):
            return None
        if ast.dump(call.args[1]) != ast.dump(t.comparators[0]):
            return None
        itv = fr.locals.get(call.args[0].id)
        if not (isinstance(itv, Term) and itv.op == "call" and itv.args and itv.args[0] == "builtins.iter" and len(itv.args) == 2
                and isinstance(itv.args[1], V)):
            return None
        if st.orelse:
            return None
        return t.left.target, itv.args[1]

    def s_While(self, st: ast.While, fr: Frame) -> None:
        proto = self._iterator_protocol_loop(st, fr)
        if proto is not None:
            target, src = proto
            loop = ast.For(target=target, iter=ast.Constant(value=None), body=st.body, orelse=[], type_comment=None)
            ast.copy_location(loop, st)
            ast.fix_missing_locations(loop)
            self.s_For(loop, fr, it=src)
            return
        n = 0
        while n <= self.unroll:
            v = self.eval(st.test, fr)
            if not self.decide(v, st.test):
                break
            try:
                self.exec_block(st.body, fr)
            except _Break:
                return
            except _Continue:
                pass
            n += 1
        else:
            self.emit("note", st, what="while-unroll-limit")

    def s_Break(self, st: ast.Break, fr: Frame) -> None:
        raise _Break()

    def s_Continue(self, st: ast.Continue, fr: Frame) -> None:
        raise _Continue()

    def s_Try(self, st: ast.Try, fr: Frame) -> None:
        caught: List[Any] = []
        for h in st.handlers:
            caught.append(self._handler_classes(h, fr))
        flat = [c for hs in caught for c in hs]
        self.handlers.append(flat)
        try:
            try:
                self.exec_block(st.body, fr)
            finally:
                self.handlers.pop()
        except _Raise as r:
            for h, classes in zip(st.handlers, caught):
                if any(self.catches(c, r.exc) for c in classes):
                    if h.name:
                        fr.locals[h.name] = r.exc
                    prev = fr.locals.get("$exc")
                    fr.locals["$exc"] = r.exc
                    self.emit("caught", h, exc=r.exc, implicit=r.implicit)
                    try:
                        self.exec_block(h.body, fr)
                    finally:
                        if prev is not None:
                            fr.locals["$exc"] = prev
                        else:
                            fr.locals.pop("$exc", None)
                            if st.finalbody:
                                pass
                    break
            else:
                if st.finalbody:
                    self.exec_block(st.finalbody, fr)
                raise
        else:
            self.exec_block(st.orelse, fr)
        if st.finalbody:
            self.exec_block(st.finalbody, fr)

    def _handler_classes(self, h: ast.ExceptHandler, fr: Frame) -> List[Any]:
        if h.type is None:
            return [BaseException]
        v = self.eval(h.type, fr)
        vs = v.items if isinstance(v, TupleV) else [v]
        out: List[Any] = []
        for x in vs:
            if isinstance(x, ClassV):
                out.append(x.cls)
            elif isinstance(x, Ext):
                c = exc_class_of(x.name)
                out.append(c if c is not None else x.name)
        return out

    def catches(self, handler_cls: Any, exc: ExcV) -> bool:
        return self.exc_is_subclass(exc.cls, handler_cls)

    def exc_is_subclass(self, c: Any, h: Any) -> bool:
        if isinstance(h, type) and isinstance(c, type):
            return issubclass(c, h)
        if isinstance(c, ClassInfo):
            if isinstance(h, ClassInfo):
                return c.is_subclass_of(h)
            if isinstance(h, type):
                for b in c.ext_bases():
                    bc = exc_class_of(b if "." in b else "builtins." + b)
                    if bc is not None and issubclass(bc, h):
                        return True
                return False
        return False

    def may_be_caught(self, exc_cls: Any) -> bool:
        for hs in self.handlers:
            for h in hs:
                if self.exc_is_subclass(exc_cls, h):
                    return True
        return False

    def s_FunctionDef(self, st: ast.FunctionDef, fr: Frame) -> None:
        fi = FuncInfo(f"{fr.qualname}.<locals>.{st.name}", fr.module, st, None)
        fr.locals[st.name] = FuncV(fi, None, fr)

    def s_With(self, st: ast.With, fr: Frame) -> None:
        for item in st.items:
            v = self.eval(item.context_expr, fr)
            if item.optional_vars is not None:
                self.assign(item.optional_vars, Term("enter", (v,), node=st), fr, st)
        self.exec_block(st.body, fr)

    def s_Import(self, st: ast.Import, fr: Frame) -> None:
        for a in st.names:
            fr.locals[a.asname or a.name.split(".")[0]] = Ext(a.name if a.asname else a.name.split(".")[0])

    def s_ImportFrom(self, st: ast.ImportFrom, fr: Frame) -> None:
        for a in st.names:
            fr.locals[a.asname or a.name] = Ext(f"{st.module}.{a.name}")

    def s_Global(self, st: ast.Global, fr: Frame) -> None:
        self.emit("note", st, what="global", names=list(st.names))

    def s_Nonlocal(self, st: ast.Nonlocal, fr: Frame) -> None:
        self.emit("note", st, what="nonlocal", names=list(st.names))

    # ------------------------------------------------------------------ assignment
    def assign(self, target: ast.expr, v: V, fr: Frame, st: Any, aug: bool = False) -> None:
        if isinstance(target, ast.Name):
            fr.locals[target.id] = v
        elif isinstance(target, (ast.Tuple, ast.List)):
            items = self.unpack(v, target.elts, st)
            for t, x in zip(target.elts, items):
                if isinstance(t, ast.Starred):
                    self.assign(t.value, x, fr, st)
                else:
                    self.assign(t, x, fr, st)
        elif isinstance(target, ast.Attribute):
            recv = self.eval(target.value, fr)
            self.emit("write", st, how="setattr", target=recv, attr=target.attr, value=v, aug=aug)
            if isinstance(recv, Inst):
                recv.attrs[self._mangle(target.attr, fr)] = v
            elif isinstance(recv, SchemaV) and target.attr == "_props":
                recv.props = v
        elif isinstance(target, ast.Subscript):
            recv = self.eval(target.value, fr)
            idx = self.resolve(self.eval(target.slice, fr))
            if isinstance(recv, DictV) and getattr(self, "split_on_store", False) and isinstance(idx, (Sym, Term)) \
                    and recv.concrete() and recv.lookup(idx) is None and recv.pairs():
                # a store under a symbolic key may hit an existing entry: case split exactly as `idx in recv` would
                self.decide(self.compare("in", idx, recv, st), st)      # type: ignore[attr-defined]
                idx = self.resolve(idx)
            self.emit("write", st, how="setitem", target=recv, index=idx, value=v, aug=aug)
            if isinstance(recv, DictV):
                self.hash_partial(idx, st, "dict store")       # type: ignore[attr-defined]
                recv.store(idx, v)
            elif isinstance(recv, ListV) and isinstance(idx, Const) and isinstance(idx.value, int) \
                    and recv.concrete() and -len(recv.items) <= idx.value < len(recv.items):
                recv.items[idx.value] = v
        elif isinstance(target, ast.Starred):
            self.assign(target.value, v, fr, st)
        else:
            self.emit("unsupported", st, what="assign-target")

    def unpack(self, v: V, elts: List[ast.expr], st: Any) -> List[V]:
        n = len(elts)
        star = [i for i, e in enumerate(elts) if isinstance(e, ast.Starred)]
        if isinstance(v, (TupleV, ListV)) and v.concrete():
            items = list(v.items)
            if star:
                i = star[0]
                after = n - i - 1
                if len(items) >= n - 1:
                    mid = items[i:len(items) - after]
                    return items[:i] + [ListV(mid)] + (items[len(items) - after:] if after else [])
            elif len(items) == n:
                return items
        out: List[V] = []
        for i, e in enumerate(elts):
            if isinstance(e, ast.Starred):
                out.append(Term("unpack_rest", (v, i), kind="list", node=st))
            else:
                out.append(Term("unpack", (v, i), node=st))
        return out

    def _mangle(self, attr: str, fr: Frame) -> str:
        if fr.cls is not None:
            return mangle(fr.cls.name, attr)
        return attr
