# C06: repr must not lose a declared constraint: empty element list + len
from d42 import schema, optional
for s in (schema.list([]).len(0), schema.list([]).len(0, 5), schema.list([]).len(..., 3)):
    text = repr(s)
    back = eval(text, {"schema": schema, "optional": optional})
    assert back == s and repr(back) == text, (text, s.props, back.props)
print("ok")
