"""F19 (C12, C08): `%` copied `...` placeholders into positions the declaration refuses.
Fails before fix ef0ffee, passes after.  Run: cd /repo && /venv/bin/python /verif/findings/F19_placeholder_positions.py"""
from d42 import fake, schema, validate
from d42.substitution.errors import SubstitutionError

cases = [lambda: schema.list % [1, ..., 2], lambda: schema.list(schema.any) % [1, ..., 2],
         lambda: schema.dict % {"a": ...}, lambda: schema.dict({...: ...}) % {"a": ...}]
for mk in cases:
    try:
        s = mk()
    except SubstitutionError:
        continue                  # refused loudly: what the property allows
    # a returned schema must be usable
    repr(s)
    fake(s)
    validate(s, [1, 5, 2])
    validate(s, {"a": 1})
# the placeholder forms that are meaningful still work
assert repr(schema.list % [1, ...]) and repr(schema.list % [..., 1, ...]) and repr(schema.dict % {"a": 1, ...: ...})
print("ok")
