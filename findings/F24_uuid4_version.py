"""F24 (C10): schema.uuid4(<a version-1 UUID>) was accepted and then failed its own validation.
Fails before fix f203471, passes after.  Run: cd /repo && /venv/bin/python /verif/findings/F24_uuid4_version.py"""
import uuid

from d42 import schema, validate
from d42.declaration import DeclarationError

try:
    s = schema.uuid4(uuid.uuid1())
except DeclarationError:
    pass
else:
    assert not validate(s, s.props.value).has_errors(), "declared schema rejects its own fixed value"
print("ok")
