"""F18 (C09): an explicit repeat bound equal to the MAX_REPEAT opcode was treated as open-ended.
Fails before fix fb5f5e2, passes after.  Run: cd /repo && /venv/bin/python /verif/findings/F18_max_repeat_opcode.py"""
import re
from re._constants import MAX_REPEAT

from d42.generation import Random, RegexGenerator

n = int(MAX_REPEAT)          # 44 on Python 3.12
pattern = "^a{3,%d}$" % n
g = RegexGenerator(Random(), max_repeat=n + 60)
bad = [s for s in (g.generate(pattern) for _ in range(300)) if not re.fullmatch("a{3,%d}" % n, s)]
assert not bad, f"{len(bad)} of 300 generated strings do not match {pattern!r} (longest: {max(map(len, bad))})"
print("ok")
