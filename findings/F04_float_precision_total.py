# C08: validate() must return a result for non-finite / huge floats under precision
from d42 import schema, validate
s = schema.float(1.0).precision(2)
for v in (float("inf"), float("-inf"), float("nan"), 1e308):
    res = validate(s, v)
    assert res.has_errors(), v
assert not validate(s, 1.001).has_errors()
assert validate(s, 1.01).has_errors()
print("ok")
