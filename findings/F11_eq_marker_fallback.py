# C15 (known finding, not repaired): a `...` marker inside an element list reaches eq()'s validate fallback
from d42 import schema
a, b = schema.list([schema.any]), schema.list([...])
assert (a == b) is False, "schemas that accept different values compare equal"
print("ok")
