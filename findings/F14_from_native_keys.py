# C14/C12: from_native refuses non-plain values with ValueError; substitute only raises SubstitutionError
from d42 import schema, substitute, optional
from d42.utils import from_native
from d42.substitution.errors import SubstitutionError
for bad in ({...: 1}, {"a": {...: 1}}, [{...: 1}], {optional("a"): 1}):
    try:
        from_native(bad)
    except ValueError:
        pass
    else:
        raise AssertionError(f"from_native accepted {bad!r}")
try:
    substitute(schema.dict, {"a": {...: 1}})
except SubstitutionError:
    pass
print("ok")
