"""F20 (C08): rendering an error about an int beyond sys.get_int_max_str_digits() raised ValueError.
Fails before fix 7fcb16c, passes after.  Run: cd /repo && /venv/bin/python /verif/findings/F20_huge_int_rendering.py"""
from d42 import schema, validate
from d42.validation import ValidationException, format_result, validate_or_fail

H = 10 ** 5000
for s, v in [(schema.str, H), (schema.int(5), H), (schema.int.min(5), -H), (schema.int.max(5), H),
             (schema.any(schema.str, schema.none), H), (schema.dict({"a": schema.int}), {"a": 1, H: 2}),
             (schema.list(schema.str), [[H]])]:
    r = validate(s, v)
    assert r.has_errors()
    lines = format_result(r)
    assert all(isinstance(x, str) and x for x in lines)
    try:
        validate_or_fail(s, v)
    except ValidationException as e:
        assert str(e)
    else:
        raise AssertionError("validate_or_fail returned for a failing value")
print("ok")
