# C17 (known finding, not repaired): negated character classes are generated from a set difference
# whose iteration order depends on PYTHONHASHSEED, so the same seed gives different strings.
import os, subprocess, sys
code = ("from d42 import schema, fake; from d42.generation import Random; "
        "Random().set_seed(7); print([fake(schema.str.regex('[^a]')) for _ in range(8)])")
outs = {subprocess.run([sys.executable, "-c", code], env={**os.environ, "PYTHONHASHSEED": h},
                       capture_output=True, text=True).stdout for h in ("1", "2", "3")}
assert len(outs) == 1, outs
print("ok")
