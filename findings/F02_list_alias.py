# C07: later mutation of a list passed to a declaration must not change the schema
from d42 import schema
l = [schema.int]
s = schema.list(l)
before = repr(s)
l.append(schema.str)
assert repr(s) == before, (before, repr(s))
print("ok")
