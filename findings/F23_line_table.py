"""F23 (C19): the line table was str.splitlines(), which breaks at form feed, VT, FS/GS/RS, NEL, U+2028/9 - ast does not.
Fails before fix 8e3c08c, passes after.  Run: cd /repo && /venv/bin/python /verif/findings/F23_line_table.py"""
import ast

from d42.migration.migrate_v1_to_v2 import mapping, rewrite_imports

for src in ["x = 1\n\x0c\nfrom district42 import schema\n", "x = 'a\x0cb'\nfrom district42 import schema\n",
            "# c d\nfrom district42 import schema\ny = 2\n"]:
    out = rewrite_imports(src, mapping)
    tree = ast.parse(out)
    assert "district42" not in out, out
    assert len(tree.body) == len(ast.parse(src).body), out
print("ok")
