# C10: a declaration may fail only with DeclarationError
from d42 import schema
from d42.declaration import DeclarationError
try:
    schema.str.regex("a{99999999999999999999}")
except DeclarationError:
    print("ok")
