"""F25 (C16): a custom type replaced a caller-supplied root path (an empty PathHolder is falsy).
Fails before fix 51c1bdc, passes after.  Run: cd /repo && /venv/bin/python /verif/findings/F25_custom_root_path.py"""
from typing import Any

from th import PathHolder

from d42 import schema, validate
from d42.custom_type import CustomSchema, PathHolder as PH, Props, ValidationResult, register_type
from d42.validation.errors import TypeValidationError


class NumSchema(CustomSchema[Props]):
    def __validate__(self, visitor: Any, value: Any, path: PH, **kwargs: Any) -> ValidationResult:
        result = visitor.make_validation_result()
        if not isinstance(value, int):
            result.add_error(TypeValidationError(path, value, int))
        return result


num = register_type("num_f25", NumSchema)
root = PathHolder("root")
custom = validate(num, "x", path=root).get_errors()[0].path
builtin = validate(schema.int, "x", path=PathHolder("root")).get_errors()[0].path
assert str(custom) == str(builtin) == "root", (str(custom), str(builtin))
print("ok")
