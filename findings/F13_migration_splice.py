# C19: the import rewriter must preserve every other statement, also those sharing a physical line
import ast
from d42.migration.migrate_v1_to_v2 import rewrite_imports, mapping
def stmts(src): return [ast.dump(n) for n in ast.parse(src).body if not isinstance(n, ast.ImportFrom)]
cases = [
    "from district42 import schema; x = 1\n",
    "y = 2; from district42 import schema\n",
    "from district42 import schema; from revolt import substitute; z = 3\n",
    "from district42 import (\n    schema,\n    foo,\n); w = 4\n",
    "from district42 import schema  # keep me\nq = 5",
    "from district42 import schema\n",
]
for src in cases:
    out = rewrite_imports(src, mapping)
    assert out is not None
    assert stmts(out) == stmts(src), (src, out)
    assert "district42 import schema" not in out, (src, out)
    assert "revolt import substitute" not in out, (src, out)
assert rewrite_imports("from district42 import schema\nx = 1\n", mapping) == "from d42 import schema\nx = 1\n"
print("ok")
