"""F26 (C12): substitute(schema.dict, {optional("a"): 1}) stored the optional OBJECT as a required literal key.
Fails before fix 79361d3, passes after.  Run: cd /repo && /venv/bin/python /verif/findings/F26_optional_key_in_value.py"""
from d42 import optional, schema, substitute, validate
from d42.substitution.errors import SubstitutionError

try:
    s = substitute(schema.dict, {optional("a"): 1})
except SubstitutionError:
    pass
else:
    assert not validate(s, {"a": 1}).has_errors() or not validate(s, {}).has_errors(), repr(s)
print("ok")
