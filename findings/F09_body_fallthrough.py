# C12: substitute() may fail only with SubstitutionError
from d42 import schema, substitute
from d42.substitution.errors import SubstitutionError
try:
    substitute(schema.list([..., schema.int, ...]), [1, object()])
except SubstitutionError:
    print("ok")
