"""F28 (C06): repr(schema.float(float("inf"))) printed the bare name `inf`.
Fails before fix 86cdc4e, passes after.  Run: cd /repo && /venv/bin/python /verif/findings/F28_nonfinite_float_repr.py"""
from d42 import schema

for s in [schema.float(float("inf")), schema.float.min(float("-inf")), schema.float.max(float("inf"))]:
    assert eval(repr(s), {"schema": schema}) == s, repr(s)
print("ok")
