from d42 import schema
from d42.declaration import DeclarationError
def outcome(f):
    try: return ("ok", repr(f()))
    except DeclarationError: return ("rejected",)
a = outcome(lambda: schema.str.len(..., 5).regex("a"))
b = outcome(lambda: schema.str.regex("a").len(..., 5))
print(a, b); assert a == b, "order dependence"
