"""F21 (C01): fake(schema.str.alphabet("")) raised IndexError although "" conforms.
Fails before fix f2ca6f4, passes after.  Run: cd /repo && /venv/bin/python /verif/findings/F21_empty_alphabet.py"""
from d42 import fake, schema, validate

s = schema.str.alphabet("")
v = fake(s)
assert v == "" and not validate(s, v).has_errors()
print("ok")
