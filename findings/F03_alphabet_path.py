# C03: a nested alphabet error must carry the path of the offending sub-value
from d42 import schema, validate
res = validate(schema.dict({"a": schema.str.alphabet("ab")}), {"a": "xyz"})
(err,) = res.get_errors()
assert str(err.path) == "['a']" or len(err.path) == 1, (str(err.path), len(err.path))
print("ok")
