# C04/C12: substitute() must never return an any() with no alternatives
from d42 import schema, substitute, fake
from d42.substitution.errors import SubstitutionError
s = schema.any(schema.dict({"a": schema.int, ...: ...}))
try:
    r = substitute(s, {"a": 1, "b": 2})
except SubstitutionError:
    print("ok (refused)")
else:
    assert len(r.props.types) > 0, repr(r)
    fake(r)
    print("ok")
