# C01: every outcome of the draw must lie inside [min, max]
from unittest.mock import patch
import random
from d42 import schema, fake, validate
s = schema.float.min(0.15).max(0.25).precision(1)
for extreme in (min, max):
    with patch.object(random, "randint", lambda a, b: extreme(a, b)):
        v = fake(s)
    assert not validate(s, v).has_errors(), (extreme.__name__, v)
s2 = schema.float.min(0.11).max(0.19).precision(1)   # no grid point inside: must still not raise
v = fake(s2); assert not validate(s2, v).has_errors(), v
s3 = schema.float.min(-0.25).max(-0.15).precision(1)
for extreme in (min, max):
    with patch.object(random, "randint", lambda a, b: extreme(a, b)):
        v = fake(s3)
    assert not validate(s3, v).has_errors(), (extreme.__name__, v)
print("ok")
