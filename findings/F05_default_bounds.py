# C01: fake() must not raise for satisfiable schemas whose declared bound lies beyond the generator default
import sys
from d42 import schema, fake, validate
cases = {
 "int":   [schema.int.min(2**64), schema.int.max(-2**64)],
 "float": [schema.float.min(1e30), schema.float.max(-1e30)],
 "str":   [schema.str.len(40, ...), schema.str.alphabet("ab").len(33, ...)],
 "list":  [schema.list(schema.int).len(20, ...), schema.list.len(17, ...)],
}
which = sys.argv[1:] or list(cases)
for k in which:
    for s in cases[k]:
        v = fake(s)
        assert not validate(s, v).has_errors(), (s, v)
print("ok", which)
