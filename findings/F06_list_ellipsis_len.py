# C01 (known finding, not repaired): a list with `...` and an exact length generates only its concrete members
from d42 import schema, fake, validate
s = schema.list([schema.int, ...]).len(5)
v = fake(s)
assert not validate(s, v).has_errors(), (v, validate(s, v).get_errors())
print("ok")
