"""F22 (C09): a negated class that excludes the whole generator alphabet raised IndexError.
Fails before fix 30d0521, passes after.  Run: cd /repo && /venv/bin/python /verif/findings/F22_exhausted_negated_class.py"""
import re

from d42 import fake, schema, validate

for p in [r"^[^ -~]$", r"^[^\t-~]{2}$"]:
    s = schema.str.regex(p)
    v = fake(s)
    assert re.fullmatch(p, v), (p, v)
    assert not validate(s, v).has_errors()
print("ok")
