"""F29 (C09): the fallback for an exhausted negated class tested a category by its ASCII alphabet only.
Fails before fix d2d2014, passes after.  Run: cd /repo && /venv/bin/python /verif/findings/F29_fallback_category.py"""
import re

from d42.generation import Random, RegexGenerator

g = RegexGenerator(Random())
for p in [r"[^\x00-\xa9\w]", r"[^\x00-ٟ\d]", r"[^ -~\w]"]:
    v = g.generate(p)
    assert re.fullmatch(p, v), (p, v)
print("ok")
