#!/bin/bash
# tools/nd.sh <diff-name> <CNN> [tier]: apply neutral_diffs/<name>.diff to a scratch worktree /tmp/nd_<name> (kept until `tools/nd.sh clean`) and run one check
if [ "$1" = clean ]; then for d in /tmp/nd_*; do git -C /repo worktree remove --force $d 2>/dev/null; rm -rf $d; done; git -C /repo worktree prune; exit 0; fi
n=$1; d=/tmp/nd_$n
if [ ! -d $d ]; then git -C /repo worktree add -q --detach $d HEAD && git -C $d apply /verif/neutral_diffs/$n.diff || exit 3; fi
cd /verif && SA_NO_EVIDENCE=1 /venv/bin/python -m sa check $2 --tier ${3:-quick} --repo $d
