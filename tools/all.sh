#!/bin/bash
# tools/all.sh [repo-dir] [tier]: run all 19 checks in parallel (ad-hoc: evidence is not rewritten); print only the checks that do not exit 0
repo=${1:-/repo}; tier=${2:-quick}; out=$(mktemp -d)
cd /verif
for i in $(seq -w 1 19); do
  ( SA_NO_EVIDENCE=1 /venv/bin/python -m sa check C$i --tier $tier --repo $repo > $out/C$i.txt 2>&1; echo $? > $out/C$i.rc ) &
done
wait
bad=0
for i in $(seq -w 1 19); do
  rc=$(cat $out/C$i.rc)
  if [ "$rc" != 0 ]; then bad=1; echo "C$i rc=$rc"; grep -E "^\s*VIOLATED|ANALYSIS-ERROR|Error" $out/C$i.txt | cut -c1-220 | head -${3:-6}; fi
done
rm -rf $out
[ $bad = 0 ] && echo "all 19 silent"
exit $bad
