#!/usr/bin/env python3
"""Run all 19 quick checks against behaviour-preserving refactorings given as git diffs.

  tools/neutraldiffs.py [--tests] [--jobs N] <diff or dir> ...

Each diff is applied to a fresh detached worktree of /repo (under a mkdtemp outside /repo and /verif, removed
afterwards); with --tests the unedited suite must end `1043 passed` there (otherwise the diff is not neutral and is
reported as such, not as a false alarm).  Every check must stay silent (exit 0) on a neutral diff.
"""
import concurrent.futures as cf
import glob
import json
import os
import subprocess
import sys

HERE = os.path.dirname(os.path.dirname(os.path.abspath(__file__)))
sys.path.insert(0, os.path.join(HERE, "tools"))
from seedcheck import ALL, PY, drop, scratch_repo, sh  # noqa: E402


def one(diff, run_tests):
    d, wt = scratch_repo()
    out = {"diff": diff}
    try:
        a = sh(f"git apply {diff}", cwd=wt)
        if a.returncode:
            out["apply_err"] = a.stderr[-300:]
            return out
        if run_tests:
            t = sh(f"{PY} -m pytest -q -p no:cacheprovider -n 4 -x", cwd=wt)
            out["suite"] = t.stdout.strip().splitlines()[-1] if t.stdout.strip() else t.stderr[-200:]
            if "1043 passed" not in out["suite"]:
                out["not_neutral"] = True
                return out
        env = dict(os.environ, SA_NO_EVIDENCE="1")
        procs = {pid: subprocess.Popen([PY, "-m", "sa", "check", pid, "--tier", "quick", "--repo", wt], cwd=HERE,
                                       stdout=subprocess.PIPE, stderr=subprocess.STDOUT, text=True, env=env) for pid in ALL}
        flagged = {}
        for pid, p in procs.items():
            o, _ = p.communicate(timeout=1800)
            if p.returncode:
                flagged[pid] = [l.strip()[:260] for l in o.splitlines()
                                if l.strip().startswith(("VIOLATED", "ANALYSIS-ERROR", "Traceback"))][:5] or [o[-300:]]
        out["flagged"] = flagged
    finally:
        drop(d)
    return out


def main():
    args = sys.argv[1:]
    run_tests = "--tests" in args
    jobs = 3
    if "--jobs" in args:
        jobs = int(args[args.index("--jobs") + 1])
        del args[args.index("--jobs"):args.index("--jobs") + 2]
    paths = []
    for a in args:
        if a.startswith("--"):
            continue
        if os.path.isdir(a):
            paths += sorted(x for x in glob.glob(os.path.join(a, "**", "*.diff"), recursive=True) if "/superseded/" not in x)
        else:
            paths.append(a)
    bad = 0
    with cf.ThreadPoolExecutor(jobs) as ex:
        for r in ex.map(lambda p: one(os.path.abspath(p), run_tests), paths):
            name = os.path.relpath(r["diff"])
            if r.get("apply_err"):
                print("APPLY-FAIL", name, r["apply_err"]); bad += 1
            elif r.get("not_neutral"):
                print("NOT-NEUTRAL", name, r["suite"]); bad += 1
            elif r["flagged"]:
                bad += 1
                print("FLAGGED   ", name)
                for k, v in r["flagged"].items():
                    for l in v:
                        print("     ", k, l)
            else:
                print("silent    ", name, r.get("suite", ""))
            sys.stdout.flush()
    print("problems:", bad)
    return 1 if bad else 0


if __name__ == "__main__":
    sys.exit(main())
