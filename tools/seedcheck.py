#!/usr/bin/env python3
"""Confirm a seeded change and run the checks against it.

  tools/seedcheck.py verify <dir>      # dir has patch.diff + demo.py: suite passes with patch, demo fails with / passes without
  tools/seedcheck.py detect <dir> [IDs]  # apply patch to a scratch copy of /repo/d42, run the quick checks, list new violations

Scratch copies live under a fresh mkdtemp outside /repo and /verif and are removed afterwards.
"""
import json
import os
import shutil
import subprocess
import sys
import tempfile

HERE = os.path.dirname(os.path.dirname(os.path.abspath(__file__)))
PY = "/venv/bin/python"
ALL = [f"C{i:02d}" for i in range(1, 20)]


def sh(cmd, cwd=None, timeout=1200):
    return subprocess.run(cmd, shell=True, cwd=cwd, capture_output=True, text=True, timeout=timeout)


def scratch_repo():
    d = tempfile.mkdtemp(prefix="seed_")
    r = sh(f"git -C /repo worktree add -q --detach {d}/wt HEAD")
    if r.returncode:
        raise SystemExit(r.stderr)
    return d, os.path.join(d, "wt")


def drop(d):
    sh(f"git -C /repo worktree remove --force {d}/wt")
    shutil.rmtree(d, ignore_errors=True)


def verify(sdir):
    patch = os.path.join(sdir, "patch.diff")
    demo = os.path.join(sdir, "demo.py")
    d, wt = scratch_repo()
    out = {}
    try:
        r0 = sh(f"{PY} {demo}", cwd=wt)
        out["demo_without"] = r0.returncode
        a = sh(f"git apply {patch}", cwd=wt)
        out["apply"] = a.returncode
        if a.returncode:
            out["apply_err"] = a.stderr[-300:]
            return out
        out["files"] = sh("git diff --stat", cwd=wt).stdout.strip().splitlines()[-1:]
        t = sh(f"{PY} -m pytest -q -p no:cacheprovider -n 8 -x", cwd=wt)
        out["suite"] = t.stdout.strip().splitlines()[-1] if t.stdout.strip() else t.stderr[-200:]
        r1 = sh(f"{PY} {demo}", cwd=wt)
        out["demo_with"] = r1.returncode
        out["demo_with_tail"] = (r1.stderr or r1.stdout).strip().splitlines()[-1:] if (r1.stderr or r1.stdout).strip() else []
        out["confirmed"] = (r0.returncode == 0 and r1.returncode != 0 and "1043 passed" in out["suite"])
    finally:
        drop(d)
    return out


def detect(sdir, ids):
    patch = os.path.join(sdir, "patch.diff")
    d, wt = scratch_repo()
    res = {}
    try:
        a = sh(f"git apply {patch}", cwd=wt)
        if a.returncode:
            return {"apply_err": a.stderr[-300:]}
        procs = {}
        env = dict(os.environ, SA_NO_EVIDENCE="1")
        for pid in ids:
            procs[pid] = subprocess.Popen([PY, "-m", "sa", "check", pid, "--tier", "quick", "--repo", wt], cwd=HERE,
                                          stdout=subprocess.PIPE, stderr=subprocess.STDOUT, text=True, env=env)
        for pid, p in procs.items():
            o, _ = p.communicate(timeout=900)
            viol = [l.strip() for l in o.splitlines() if l.strip().startswith("VIOLATED")]
            err = [l for l in o.splitlines() if l.startswith("ANALYSIS-ERROR")]
            if p.returncode:
                res[pid] = {"rc": p.returncode, "violated": viol[:6], "error": err[:1]}
    finally:
        drop(d)
    return res


if __name__ == "__main__":
    mode, sdir = sys.argv[1], sys.argv[2]
    if mode == "verify":
        print(json.dumps(verify(sdir), indent=1))
    else:
        ids = sys.argv[3:] or ALL
        print(json.dumps(detect(sdir, ids), indent=1))
