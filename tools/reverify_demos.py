#!/usr/bin/env python3
"""tools/reverify_demos.py [--jobs N] [ids]: every archived seeded change must still break its property on the CURRENT
tree: apply seeded/<id>/patch.diff to a scratch worktree of /repo HEAD (under mkdtemp), run the demo there (must exit
non-zero), remove the worktree.  A `fix:` commit in /repo can turn a seeded change into a harmless one."""
import json, os, subprocess, sys, tempfile, shutil
from concurrent.futures import ThreadPoolExecutor
root = os.path.dirname(os.path.dirname(os.path.abspath(__file__)))
args = sys.argv[1:]
jobs = 6
if "--jobs" in args:
    i = args.index("--jobs"); jobs = int(args[i + 1]); del args[i:i + 2]
ids = args or sorted(os.listdir(os.path.join(root, "seeded")))

def one(sid):
    d = tempfile.mkdtemp(prefix="rv_")
    wt = os.path.join(d, "wt")
    try:
        subprocess.run(["git", "-C", "/repo", "worktree", "add", "-q", "--detach", wt, "HEAD"], check=True, capture_output=True)
        r = subprocess.run(["git", "-C", wt, "apply", os.path.join(root, "seeded", sid, "patch.diff")], capture_output=True, text=True)
        if r.returncode:
            return sid, "APPLY-FAIL"
        demo = [f for f in os.listdir(os.path.join(root, "seeded", sid)) if f.startswith("demo")]
        r = subprocess.run(["/venv/bin/python", os.path.join(root, "seeded", sid, demo[0])], cwd=wt, capture_output=True, text=True, timeout=600)
        return sid, ("breaks" if r.returncode else "HARMLESS-NOW")
    except Exception as e:
        return sid, f"ERROR {e!r}"
    finally:
        subprocess.run(["git", "-C", "/repo", "worktree", "remove", "--force", wt], capture_output=True)
        shutil.rmtree(d, ignore_errors=True)

bad = 0
with ThreadPoolExecutor(jobs) as ex:
    for sid, st in ex.map(one, ids):
        if st != "breaks":
            bad += 1
            print(sid, st)
subprocess.run(["git", "-C", "/repo", "worktree", "prune"])
print(f"checked {len(ids)}; not breaking any more: {bad}")
