#!/usr/bin/env python3
"""tools/patch2mutant.py <seed-id> <RULE>: print a calibration MUTANTS entry (text edits, one per hunk) computed from
seeded/<id>/patch.diff, so that a rule module's corpus can replay a seeded change against the current tree."""
import os, re, sys
root = os.path.dirname(os.path.dirname(os.path.abspath(__file__)))
sid, rule = sys.argv[1], sys.argv[2]
edits = []
cur = None
old = new = None
def flush():
    global old, new
    if cur and old is not None and (old != new):
        edits.append((cur, "".join(old), "".join(new)))
    old = new = None
for line in open(os.path.join(root, "seeded", sid, "patch.diff"), encoding="utf-8"):
    if line.startswith("diff --git"):
        flush(); cur = None
    elif line.startswith("+++ "):
        cur = line[4:].strip()
        cur = cur[2:] if cur.startswith("b/") else cur
    elif line.startswith("--- ") or line.startswith("index ") or line.startswith("new file") or line.startswith("\\"):
        continue
    elif line.startswith("@@"):
        flush(); old, new = [], []
    elif old is not None:
        if line.startswith(" "):
            old.append(line[1:]); new.append(line[1:])
        elif line.startswith("-"):
            old.append(line[1:])
        elif line.startswith("+"):
            new.append(line[1:])
flush()
name = sys.argv[3] if len(sys.argv) > 3 else f"seeded {sid}"
print("    {" + f'"name": {name!r}, "rule": {rule!r},')
print('     "edits": [' + ",\n               ".join(repr(e) for e in edits) + "]},")
