"""Per-property manifest texts (consumed by tools/mkmanifest.py)."""

PENDING_REASON = 'check under construction in this session: no verdict is claimed until the rule module exists (see DESIGN.md section 3 for the planned static rules)'

DATA = {
    'C01': {
        'technique': "model extraction + path-sensitive abstract interpretation of Generator.visit_*; sibling cross-check against the validator's constraint table; symbolic bound entailment for every draw",
        'text': "Necessary conditions decided for all reachable prop-sets and all paths: the generator consults every constraint the validator checks (or is provably exempt), every random_int/random_float draw has lo<=hi by structural entailment, grid bounds round inwards, value-first, kind agreement. Not decided: that concrete generated values validate for all RNG outcomes. A declared bound handed out as the value carries every kind the declaration admits for it (kinds read off the declaration's isinstance guards); if the validator demands on-grid floats the generator must return round(_, precision) on every path (GRID). The entry function it is stated through is nothing but the dispatch to the module-level visitor (VALIDATE-/GENERATE-/SUBSTITUTE-/REPRESENT-ENTRY). Every draw from a sequence has a non-empty sequence (DRAW-NONEMPTY); a returned props.value was stored unchanged by its producer (PAYLOAD-PINNED); no value is obtained by rounding a continuous draw. The regex generator keeps no state between or inside generate() calls (GENERATOR-STATELESS).",
        'note': "Trusted base: the checker's own resolver and abstract interpreter, the frozen idiom tables listed in DESIGN.md appendix A, and Python semantics as stated in DESIGN.md section 5. Satisfiable-schema axioms ax1-ax5 of DESIGN.md C01.",
    },
    'C02': {
        'technique': 'decision-table extraction from Validator.visit_* by abstract interpretation, compared with a frozen constraint table and between sibling validators',
        'text': 'Each individual constraint is implemented as specified (type guard first, predicate, operator, error kind) under every prop subset; list-form classification is a partition; Validator/SubstitutorValidator/Substitutor agree on forms and window starts. Not decided: the verdict as a function (window arithmetic, nesting). The entry function it is stated through is nothing but the dispatch to the module-level visitor (VALIDATE-/GENERATE-/SUBSTITUTE-/REPRESENT-ENTRY). An accepted refinement stores its argument on every path (DECL-STORES); every present member of a container is dispatched to (MEMBER-VISITED); the result accumulator is exact for every operation sequence of length <= 3. A member is visited with the caller\'s context only (MEMBER-CTX).',
        'note': "Trusted base: the checker's own resolver and abstract interpreter, the frozen idiom tables listed in DESIGN.md appendix A, and Python semantics as stated in DESIGN.md section 5. The frozen constraint table is transcribed from the property statement.",
    },
    'C03': {
        'technique': 'typestate (PathHolder ownership) + def-use provenance of error-constructor arguments over all interpreter paths',
        'text': "Every error construction receives the current path and value; every member descent pairs value[k] with deepcopy(path)[k]; PathHolders are only indexed when owned; error facts are the guard's operands; each error's format() reaches the Formatter method of its class, reads only attributes its __init__ sets, renders error.path and never indexes it in place (abstract evaluation of format() on an instance built from symbolic arguments). Decided for every construction and descent site on every path. The entry function it is stated through is nothing but the dispatch to the module-level visitor (VALIDATE-/GENERATE-/SUBSTITUTE-/REPRESENT-ENTRY). The two 'missing child' messages name the error's path extended by the child on every path (FORMAT-CHILD).",
        'note': "Trusted base: the checker's own resolver and abstract interpreter, the frozen idiom tables listed in DESIGN.md appendix A, and Python semantics as stated in DESIGN.md section 5. th.PathHolder indexing mutates in place (documented dependency behaviour).",
    },
    'C04': {
        'technique': 'abstract interpretation of Substitutor.visit_* on token tables and list shapes (table-transformer laws)',
        'text': "Pin is the caller's value; every dict key and list position of the original is carried; any() is never left empty; generator and validator honour `value`. Not decided: that the chosen window is the right one on concrete values. A key of the value that a table does not declare is refused (test over all keys on the path, or an extra-key row in the pre-validation of that very table); the conversion contract of from_native (C14 ARM/FINAL) is re-derived here (NATIVE-CONTRACT). The entry function it is stated through is nothing but the dispatch to the module-level visitor (VALIDATE-/GENERATE-/SUBSTITUTE-/REPRESENT-ENTRY). Every returned container was pre-validated on its own path (CONTAINER-VALIDATED).",
        'note': "Trusted base: the checker's own resolver and abstract interpreter, the frozen idiom tables listed in DESIGN.md appendix A, and Python semantics as stated in DESIGN.md section 5. ",
    },
    'C05': {
        'technique': 'dominance (validate-first) + allowed-update-keys + monotonicity analysis; widening-mechanism rules W1-W4 on token tables',
        'text': 'Absence of the four widening mechanisms (scalar: neither validated-first nor carried+monotone; dict: required key lost/made optional/relaxed marker introduced; list: unpinned position with lengths dropped; any: foreign alternative). Not decided: the set inclusion on concrete values. An empty closed key table accepts only {}: keys added to it are widening unless the pre-validation reports them. The entry function it is stated through is nothing but the dispatch to the module-level visitor (VALIDATE-/GENERATE-/SUBSTITUTE-/REPRESENT-ENTRY).',
        'note': "Trusted base: the checker's own resolver and abstract interpreter, the frozen idiom tables listed in DESIGN.md appendix A, and Python semantics as stated in DESIGN.md section 5. ",
    },
    'C06': {
        'technique': 'emission simulation: Representor.visit_* abstractly interpreted per reachable state, the emitted call chain replayed on the extracted declaration automaton',
        'text': 'For every type and reachable prop-set the emitted DSL text re-declares exactly the set props, in an order the DSL accepts, with the right argument shapes; members rendered only through __accept__; no hash-order dependence. Not decided: equality of concrete rebuilt schemas, non-finite floats. The entry function it is stated through is nothing but the dispatch to the module-level visitor (VALIDATE-/GENERATE-/SUBSTITUTE-/REPRESENT-ENTRY). Rendering is pure: nothing is remembered on the schema, the visitor or a module global (REPR-PURE; program-defined decorators are applied).',
        'note': "Trusted base: the checker's own resolver and abstract interpreter, the frozen idiom tables listed in DESIGN.md appendix A, and Python semantics as stated in DESIGN.md section 5. eval(repr(x)) == x for scalar payload kinds.",
    },
    'C07': {
        'technique': 'effect and escape (ownership) analysis over the call-graph closure of the public operations',
        'text': 'No write to schema state, caller values or visitor singletons; no caller-owned mutable container stored un-copied; Props is copy-on-write; singletons stateless. Decides the property for every history under the stated heap model.',
        'note': "Trusted base: the checker's own resolver and abstract interpreter, the frozen idiom tables listed in DESIGN.md appendix A, and Python semantics as stated in DESIGN.md section 5. Writes happen only through the listed syntactic forms; stdlib callee effects per table.",
    },
    'C08': {
        'technique': 'exception-effect analysis with guard dominance over Validator.visit_*, Formatter.format_* and validate_or_fail',
        'text': 'Every operation on a validated value is total for the guarded kind (partial-operation table), formatter exhaustive and total on the kinds each error is built with, validate_or_fail shape. Rendering: str()/repr() of a value-derived error field whose kind can hold an unbounded int is partial (ValueError beyond sys.get_int_max_str_digits()) and must be handled (RENDER-TOTAL); format specs are partial operations. The entry function it is stated through is nothing but the dispatch to the module-level visitor (VALIDATE-/GENERATE-/SUBSTITUTE-/REPRESENT-ENTRY). has_errors() iff get_errors() is non-empty for every accumulator sequence (RESULT-ACC).',
        'note': "Trusted base: the checker's own resolver and abstract interpreter, the frozen idiom tables listed in DESIGN.md appendix A, and Python semantics as stated in DESIGN.md section 5. Partial-operation table (DESIGN appendix A); objects whose own special methods raise are out of scope as in the property.",
    },
    'C09': {
        'technique': 'abstract evaluation of the opcode/category dispatchers on every constant of the sre universe + constant evaluation of category alphabets + bound entailment for repeat draws + range-coverage of negated classes',
        'text': "Opcode and category dispatch end in a raise, supported set handled, must-refuse set never handled silently, no handler swallows the refusal, children flow into recursion, repeat bounds ordered, alphabets are subsets of their category. Not decided: full match of composed patterns. Only the parser's open-bound sentinel MAXREPEAT may be replaced by the cap (OPEN-SENTINEL); the validator matches the declared pattern itself, not a string-edited copy (VALIDATOR-PATTERN). Every sequence a character is drawn from is non-empty (DRAW-NONEMPTY). A character taken from outside the alphabet (fallback of an exhausted negated class) is tested against the categories as the regex engine defines them and against the whole of each range (FALLBACK-EXACT).",
        'note': "Trusted base: the checker's own resolver and abstract interpreter, the frozen idiom tables listed in DESIGN.md appendix A, and Python semantics as stated in DESIGN.md section 5. sre node schema of the analysing interpreter (3.12) read from re._constants as data.",
    },
    'C10': {
        'technique': 'exception-escape analysis + extracted declaration automaton (all states x all method shapes)',
        'text': "Only DeclarationError escapes any refinement method; redeclaration is rejected in every state; every value-independent constraint is cross-checked against a fixed value with a predicate at least as strong as the validator's. Not decided: value-dependent corners (NaN). Every kind the declaration admits for a fixed value passes the validator's type check (VALCHK-KIND). The validator's own checks of a fixed value are made at declaration (VALCHK-SELF); `schema | x` raises DeclarationError for a non-schema (OPERATORS). An empty element list is a declaration of zero members for len / min_len / max_len (VALCHK-ELEMENTS).",
        'note': "Trusted base: the checker's own resolver and abstract interpreter, the frozen idiom tables listed in DESIGN.md appendix A, and Python semantics as stated in DESIGN.md section 5. ",
    },
    'C11': {
        'technique': 'exhaustive exploration of the declaration automaton extracted from source: all permutations of all refinement sets',
        'text': 'Whole property on the extracted automaton: for each type, start state and set of <=4 method-shapes every order yields the same abstract outcome (rejected, or same final state/bindings/value predicates). Every rejecting transition raises DeclarationError and nothing escapes while the message is built (REJECT-KIND).',
        'note': "Trusted base: the checker's own resolver and abstract interpreter, the frozen idiom tables listed in DESIGN.md appendix A, and Python semantics as stated in DESIGN.md section 5. Lifting from the automaton to runtime rests on the paper argument in DESIGN.md C11 (value predicates depend only on own argument and payload).",
    },
    'C12': {
        'technique': 'exception-escape analysis + Ellipsis typestate on list shapes + non-empty-result analysis',
        'text': 'Only SubstitutionError escapes substitute and every Substitutor.visit_*; the `...` marker is never dereferenced on any list shape; any() result non-empty; validate-first dominates every return. Every container the substitutor stores is one the declaration accepts (RESULT-DECLARABLE: `...` only first/last in element lists, only as `...: ...` in key tables). Idempotence: necessary conditions only - the pinned payload re-validates against the same value (RE-PIN) and the conversion contract holds (NATIVE-CONTRACT); equality of the second result is not decided. The entry function it is stated through is nothing but the dispatch to the module-level visitor (VALIDATE-/GENERATE-/SUBSTITUTE-/REPRESENT-ENTRY). The validator the substitutor runs is total (PRE-VALIDATION-TOTAL); the stored key table is what the declaration stores for it.',
        'note': "Trusted base: the checker's own resolver and abstract interpreter, the frozen idiom tables listed in DESIGN.md appendix A, and Python semantics as stated in DESIGN.md section 5. ",
    },
    'C13': {
        'technique': 'def-use forwarding analysis (alias delegation) + table-transformer rules on token tables for +, make_required, flatten',
        'text': 'Alias delegates to its target with the same value in all four visitors; | is wired to any(self, other); flatten/+/make_required/__getitem__/__iter__ are lossless table transformers. Not decided: the set equalities. The entry function it is stated through is nothing but the dispatch to the module-level visitor (VALIDATE-/GENERATE-/SUBSTITUTE-/REPRESENT-ENTRY).',
        'note': "Trusted base: the checker's own resolver and abstract interpreter, the frozen idiom tables listed in DESIGN.md appendix A, and Python semantics as stated in DESIGN.md section 5. ",
    },
    'C14': {
        'technique': 'three-way kind agreement (ladder arm / declaration guard / validator guard) + exception-escape analysis of from_native',
        'text': "Each arm's kind equals the declared and validated kind, every arm pins the same value, recursion is lossless and key-preserving, the final arm raises and only ValueError escapes. Ladder order is a note only. The fixed-value comparison is on the value itself, not an image of it. The entry function it is stated through is nothing but the dispatch to the module-level visitor (VALIDATE-/GENERATE-/SUBSTITUTE-/REPRESENT-ENTRY). Every present member of a container is dispatched to its member schema (MEMBER-VISITED).",
        'note': "Trusted base: the checker's own resolver and abstract interpreter, the frozen idiom tables listed in DESIGN.md appendix A, and Python semantics as stated in DESIGN.md section 5. ",
    },
    'C15': {
        'technique': 'structure rules on Props.__eq__/Schema.__ne__/eq + class-hierarchy check + kind-confusion analysis from the prop-kind table',
        'text': '== compares the whole registry both ways with no key filtered, != is its negation, class test symmetric, optional eq/hash agree; marker operands reaching the validate fallback are reported with a counterexample. The entry function it is stated through is nothing but the dispatch to the module-level visitor (VALIDATE-/GENERATE-/SUBSTITUTE-/REPRESENT-ENTRY).',
        'note': "Trusted base: the checker's own resolver and abstract interpreter, the frozen idiom tables listed in DESIGN.md appendix A, and Python semantics as stated in DESIGN.md section 5. ",
    },
    'C16': {
        'technique': 'dispatch-chain forwarding analysis: fallback -> visit -> __d42_*__ -> user hook, and only-through-__accept__ member use',
        'text': "Members are reached only through __accept__ (no class-specific branch); the fallback chain passes the named context (value, path, indent) and agrees on hook names in all four visitors. What the custom hook returns is the visitor's answer: nothing is checked, changed or refused after it (TRANSPARENT). CustomSchema's own hooks keep nothing on the instance; a caller-supplied path reaches the user hook unchanged (also when it is the falsy root path). The keyword set that reaches a user hook is the caller's; the hook's answer is returned unchanged on every path (TRANSPARENT, three links).",
        'note': "Trusted base: the checker's own resolver and abstract interpreter, the frozen idiom tables listed in DESIGN.md appendix A, and Python semantics as stated in DESIGN.md section 5. ",
    },
    'C17': {
        'technique': 'entropy-source table over the call-graph closure of generate + order-dependence taint (set -> order-sensitive consumer)',
        'text': "Whole property modulo CPython's random: all entropy is the seeded module generator, clock/uuid sites only where exempt, no hash-order dependence, no hidden state. A dict filled inside a loop over a set is an order-sensitive consumer; findings are keyed by owner class, normalised set expression and consumer. The entry function it is stated through is nothing but the dispatch to the module-level visitor (VALIDATE-/GENERATE-/SUBSTITUTE-/REPRESENT-ENTRY). set_seed hands the caller's seed to random.seed on every path (SET-SEED, per path).",
        'note': "Trusted base: the checker's own resolver and abstract interpreter, the frozen idiom tables listed in DESIGN.md appendix A, and Python semantics as stated in DESIGN.md section 5. random.seed determinism of CPython.",
    },
    'C18': {
        'technique': 'abstract interpretation of rollout on a symbolic mapping (one / two symbolic entries): path conditions and abstract result tables compared with the specification of one rollout step',
        'text': 'Separator threaded to every recursive call/split/join, head/tail/leaf-or-group decision computed in a recognised idiom, optional re-attached on the tail, two keys with one head land in one group, groups recursed (or the path excludes a further separator), leaves stored as received, `...` passes through. The round trip itself is not decided. optional(k).key is k itself (OPTIONAL-KEY-STORED). A path that returns the mapping as it came has tested the name of an optional key too (PASS-THROUGH).',
        'note': "Trusted base: the checker's own resolver and abstract interpreter, the frozen idiom tables listed in DESIGN.md appendix A, and Python semantics as stated in DESIGN.md section 5. ",
    },
    'C19': {
        'technique': "static import resolution of every mapping target against /repo's binding tables + abstract interpretation of rewrite_imports (one symbolic statement, one symbolic alias): path conditions at the recording of a replacement, the recorded text as a symbolic string, the spliced value",
        'text': "Clause 1 whole: every mapping target resolves to a definition in /repo. Rewriter: name-preserving, only top-level absolute from-imports are recorded, mapped names emitted from their mapping target, unmapped names from their original module, aliases kept, splice keeps prefix/suffix of shared lines (byte offsets, read at application time). Not decided: output validity for all programs. The line table is cut at the tokenizer's line ends (LINE-TABLE); `nothing to do` is decided on the parsed module (NOTHING-TO-DO). Every spliced line that is followed by another one carries its own terminator (SPLICE-TERMINATED).",
        'note': "Trusted base: the checker's own resolver and abstract interpreter, the frozen idiom tables listed in DESIGN.md appendix A, and Python semantics as stated in DESIGN.md section 5. Python import semantics for absolute from-imports.",
    },
}
