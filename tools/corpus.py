#!/usr/bin/env python3
"""Run a rule module's calibration corpus verbosely:  tools/corpus.py C07 [--repo /repo]"""
import importlib, sys, os
sys.path.insert(0, os.path.dirname(os.path.dirname(os.path.abspath(__file__))))
from sa.calibrate import run_corpus
prop = sys.argv[1]
repo = sys.argv[3] if len(sys.argv) > 3 else "/repo"
mod = importlib.import_module(f"sa.rules.{prop.lower()}")
bad = 0
for m, r in zip(mod.MUTANTS, run_corpus(mod.__name__, repo, mod.MUTANTS)):
    exp = m.get("expect", "VIOLATED")
    hits = r.get("violations", [])
    ok = (r["status"] == "ran" and ((exp == "VIOLATED" and hits and (not m.get("rule") or any(m["rule"] in h for h in hits))) or (exp != "VIOLATED" and not hits))) \
        or (r["status"] == "analysis-error" and m.get("analysis_error_ok"))
    bad += not ok
    print(("ok  " if ok else "FAIL"), exp, "|", m["name"], "|", r["status"], hits[:2] if hits else r.get("why", ""))
print("failures:", bad)
