import json, os, shutil, sys, re
sys.path.insert(0, "/verif/tools")
from seedcheck import verify, detect, ALL
import concurrent.futures as cf
import sys as _s
SRC = _s.argv[1] if len(_s.argv) > 1 else "/tmp/seed4"
SUF = tuple(_s.argv[2].split(",")) if len(_s.argv) > 2 else ("G", "H")
RND = int(_s.argv[3]) if len(_s.argv) > 3 else 4
ONLY = set(_s.argv[4].split(",")) if len(_s.argv) > 4 else None      # optional: restrict to these property ids
jobs = []
for i in range(1, 20):
    pid = f"C{i:02d}"
    if ONLY and pid not in ONLY:
        continue
    for src, dst in (("A", SUF[0]), ("B", SUF[1])):
        d = f"{SRC}/{pid}/{src}"
        if os.path.exists(d + "/patch.diff") and os.path.exists(d + "/demo.py"):
            jobs.append((pid, d, f"/verif/seeded/{pid}-{dst}"))
def one(j):
    pid, d, out = j
    v = verify(d)
    return j, v
with cf.ThreadPoolExecutor(4) as ex:
    for (pid, d, out), v in ex.map(one, jobs):
        ok = v.get("confirmed")
        print(os.path.basename(out), "confirmed" if ok else "NOT CONFIRMED", v.get("suite"), v.get("demo_without"), v.get("demo_with"), v.get("apply_err", ""))
        sys.stdout.flush()
        if not ok:
            continue
        os.makedirs(out, exist_ok=True)
        for f in ("patch.diff", "demo.py", "notes.md"):
            if os.path.exists(f"{d}/{f}"):
                shutil.copy(f"{d}/{f}", f"{out}/{f}")
        files = re.findall(r"^\+\+\+ b/(.*)$", open(f"{d}/patch.diff").read(), re.M)
        notes = open(f"{d}/notes.md").read() if os.path.exists(f"{d}/notes.md") else ""
        meta = {"id": os.path.basename(out), "breaks_property": pid,
                "author": "independent sub-agent given only the property text and a scratch worktree",
                "files_touched": files, "needs_to_manifest": notes[:700],
                "confirmed_by_me": {"suite_with_patch": v["suite"], "demo_without_patch_rc": v["demo_without"], "demo_with_patch_rc": v["demo_with"],
                                    "how": "tools/seedcheck.py verify: fresh worktree of /repo HEAD under mkdtemp, git apply, full pytest -n 8, demo run from the worktree; worktree removed"},
                "detection": {}, "round": RND}
        json.dump(meta, open(f"{out}/meta.json", "w"), indent=1)
