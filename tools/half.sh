#!/bin/bash
# tools/half.sh <seeded-id> <path-glob> <CNN>: apply only the hunks of seeded/<id>/patch.diff that touch <path-glob>; run one check; remove the worktree
n=$1; d=/tmp/half_$$; 
git -C /repo worktree add -q --detach $d HEAD && git -C $d apply --3way --include="$2" /verif/seeded/$n/patch.diff || exit 3
git -C $d status --short
cd /verif && SA_NO_EVIDENCE=1 /venv/bin/python -m sa check $3 --tier ${4:-quick} --repo $d | grep -c "^VIOLATION"
git -C /repo worktree remove --force $d
