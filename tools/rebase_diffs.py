#!/usr/bin/env python3
"""Re-base archived diffs (neutral_diffs/*.diff, seeded/*/patch.diff) onto /repo HEAD after a `fix:` commit.

  tools/rebase_diffs.py [--write]

A diff that no longer applies is applied with `git apply --3way` in a scratch worktree (outside /repo and /verif, removed
afterwards); if that merges without conflict the diff is regenerated from the merged tree (with --write: the archived
file is replaced and the old one kept as *.orig.diff the first time).  Conflicting ones are listed for manual work.
"""
import glob
import os
import shutil
import subprocess
import sys
import tempfile

HERE = os.path.dirname(os.path.dirname(os.path.abspath(__file__)))


def sh(cmd, cwd):
    return subprocess.run(cmd, shell=True, cwd=cwd, capture_output=True, text=True)


def main():
    write = "--write" in sys.argv
    d = tempfile.mkdtemp(prefix="rebase_")
    wt = os.path.join(d, "wt")
    assert sh(f"git -C /repo worktree add -q --detach {wt} HEAD", "/").returncode == 0
    files = sorted(glob.glob(os.path.join(HERE, "neutral_diffs", "*.diff")) + glob.glob(os.path.join(HERE, "seeded", "*", "patch.diff")))
    files = [f for f in files if not f.endswith(".orig.diff")]
    stale = merged = conflict = 0
    try:
        for f in files:
            sh("git reset -q --hard HEAD && git clean -qfd", wt)
            if sh(f"git apply --check {f}", wt).returncode == 0:
                continue
            stale += 1
            r = sh(f"git apply --3way {f}", wt)
            st = sh("git status --short", wt).stdout
            if r.returncode != 0 or any(l[:2] in ("UU", "AA", "DU", "UD") or l.startswith("U") for l in st.splitlines()):
                conflict += 1
                print("CONFLICT", os.path.relpath(f, HERE), (r.stderr.strip().splitlines() or [""])[-1][:100])
                continue
            sh("git add -A", wt)
            new = sh("git diff --cached HEAD", wt).stdout
            merged += 1
            print("merged  ", os.path.relpath(f, HERE))
            if write:
                orig = (os.path.join(os.path.dirname(f), "superseded", os.path.basename(f)[:-5] + ".orig.diff") if "neutral_diffs" in f else f[:-5] + ".orig.diff")
                os.makedirs(os.path.dirname(orig), exist_ok=True)
                if not os.path.exists(orig):
                    shutil.copy(f, orig)
                with open(f, "w") as fh:
                    fh.write(new)
    finally:
        sh(f"git -C /repo worktree remove --force {wt}", "/")
        shutil.rmtree(d, ignore_errors=True)
    print(f"stale: {stale}, merged: {merged}, conflicts: {conflict}")
    return 1 if conflict else 0


if __name__ == "__main__":
    sys.exit(main())
