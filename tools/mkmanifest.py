#!/usr/bin/env python3
"""Regenerate /verif/MANIFEST.json from tools/manifest_data.py (claimed = a rule module exists)."""
import json, os, sys
HERE = os.path.dirname(os.path.dirname(os.path.abspath(__file__)))
sys.path.insert(0, os.path.join(HERE, "tools"))
from manifest_data import DATA, PENDING_REASON  # noqa

BASELINE = "cd /repo && /venv/bin/python -m pytest -ra -q -p no:cacheprovider --timeout=900 --continue-on-collection-errors"
checks, na = [], []
for pid in sorted(DATA):
    d = DATA[pid]
    if os.path.exists(os.path.join(HERE, "sa", "rules", pid.lower() + ".py")) and not d.get("na"):
        checks.append({
            "property_id": pid,
            "quick_cmd": f"/venv/bin/python -m sa check {pid} --tier quick",
            "thorough_cmd": f"/venv/bin/python -m sa check {pid} --tier thorough",
            "evidence_file": f"/verif/evidence/{pid}.json",
            "replay_cmd_template": "cat {path}",
            "engine": "sa",
            "level_claimed": {"category": "other", "text": d["text"], "design_ref": f"DESIGN.md section 3, {pid}"},
            "level_note": d["note"],
            "technique": d["technique"],
        })
    else:
        na.append({"property_id": pid, "reason": d.get("na") or PENDING_REASON})
m = {
    "version": 1,
    "setup_cmd": "cd /verif && /venv/bin/python -c \"import sa.loader, sa.engine; print('sa engine ok')\"",
    "hooks": {"guard": "D42_VERIF", "enable": "none needed: static analysis reads /repo's source; no instrumentation exists",
              "baseline_off_cmd": BASELINE, "source_commits": [], "add_only": True},
    "engines": [{"name": "sa", "path": "/verif/sa", "serves_properties": [c["property_id"] for c in checks],
                 "kind_free_text": "repository-specific static analyser: ast loader/resolver, DSL model extraction, "
                                   "path-sensitive abstract interpreter over finite domains, per-property rules"}],
    "checks": checks,
    "notes": "All checks are static analyses of /repo's current source (stdlib ast under /venv/bin/python); no d42 code is "
             "imported or executed, no test is run. Genuine defects repaired in /repo as 'fix:' commits and defects "
             "recorded instead of repaired are listed in /verif/known_findings.json; see DESIGN.md section 4.",
    "not_applicable": na,
}
json.dump(m, open(os.path.join(HERE, "MANIFEST.json"), "w"), indent=1)
print(f"claimed={len(checks)} not_applicable={len(na)}")
