#!/bin/bash
# tools/sd.sh <seeded-id> [CNN] [tier]: apply seeded/<id>/patch.diff to a scratch worktree /tmp/sd_<id> (kept until `tools/sd.sh clean`) and run one check
if [ "$1" = clean ]; then for d in /tmp/sd_*; do git -C /repo worktree remove --force $d 2>/dev/null; rm -rf $d; done; git -C /repo worktree prune; exit 0; fi
n=$1; d=/tmp/sd_$n; c=${2:-${n%%-*}}
if [ ! -d $d ]; then git -C /repo worktree add -q --detach $d HEAD && git -C $d apply --3way /verif/seeded/$n/patch.diff || exit 3; fi
cd /verif && SA_NO_EVIDENCE=1 /venv/bin/python -m sa check $c --tier ${3:-quick} --repo $d
