#!/usr/bin/env python3
"""Apply every behaviour-preserving variant of sa/neutral_corpus.py to a scratch copy of /repo/d42, confirm the
unedited test-suite still passes there (--tests), and run all 19 quick checks: every check must stay silent."""
import os, subprocess, sys, shutil, tempfile, json
HERE = os.path.dirname(os.path.dirname(os.path.abspath(__file__)))
sys.path.insert(0, HERE)
from sa.neutral_corpus import NEUTRAL
from sa.calibrate import make_variant
PY = "/venv/bin/python"
only = [a for a in sys.argv[1:] if not a.startswith("--")]
run_tests = "--tests" in sys.argv
bad = 0
for m in NEUTRAL:
    if only and not any(o in m["name"] for o in only):
        continue
    d = make_variant("/repo", m["edits"])
    if d is None:
        print("SKIP (anchor missing)", m["name"]); bad += 1; continue
    try:
        r = subprocess.run([PY, "-c", "import ast,sys,glob\n[ast.parse(open(f).read()) for f in glob.glob('%s/d42/**/*.py' % sys.argv[1], recursive=True)]" , d], capture_output=True, text=True)
        if r.returncode:
            print("SYNTAX", m["name"], r.stderr[-200:]); bad += 1; continue
        if run_tests:
            shutil.copytree("/repo/tests", os.path.join(d, "tests"))
            for f in ("setup.cfg", "setup.py", "requirements.txt"):
                if os.path.exists("/repo/" + f): shutil.copy("/repo/" + f, d)
            t = subprocess.run(f"{PY} -m pytest -q -p no:cacheprovider -n 8 -x 2>&1 | tail -1", shell=True, cwd=d, capture_output=True, text=True)
            if "1043 passed" not in t.stdout:
                print("TESTS FAIL (variant is not neutral)", m["name"], t.stdout.strip()[-150:]); bad += 1; continue
        procs = {}
        env = dict(os.environ, SA_NO_EVIDENCE="1")
        for i in range(1, 20):
            pid = f"C{i:02d}"
            procs[pid] = subprocess.Popen([PY, "-m", "sa", "check", pid, "--repo", d], cwd=HERE, stdout=subprocess.PIPE, stderr=subprocess.STDOUT, text=True, env=env)
        flagged = {}
        for pid, p in procs.items():
            o, _ = p.communicate()
            if p.returncode:
                flagged[pid] = [l.strip()[:160] for l in o.splitlines() if l.strip().startswith(("VIOLATED", "ANALYSIS-ERROR"))][:3]
        if flagged:
            bad += 1
            print("FLAGGED", m["name"]); [print("   ", k, v) for k, v in flagged.items()]
        else:
            print("silent ", m["name"])
    finally:
        shutil.rmtree(d, ignore_errors=True)
print("problems:", bad)
sys.exit(1 if bad else 0)
