#!/usr/bin/env python3
"""Re-run detection for every archived seeded change and compare with what meta.json records.

  tools/redetect.py [--all-checks] [--update] [--jobs N] [IDs...]

For each /verif/seeded/<id>/ the patch is applied to a fresh scratch worktree and the check of the property it
breaks (or, with --all-checks, all 19) is run in the quick tier.  Prints one line per change:
  caught / MISSED by its own property's check, and REGRESSION when meta.json said caught and it no longer is.
--update rewrites the `detection` block of meta.json (all 19 checks are run then).
"""
import concurrent.futures as cf
import json
import os
import sys

HERE = os.path.dirname(os.path.dirname(os.path.abspath(__file__)))
sys.path.insert(0, os.path.join(HERE, "tools"))
from seedcheck import ALL, detect  # noqa: E402


def main():
    args = sys.argv[1:]
    update = "--update" in args
    allc = "--all-checks" in args or update
    jobs = 4
    if "--jobs" in args:
        jobs = int(args[args.index("--jobs") + 1])
        del args[args.index("--jobs"):args.index("--jobs") + 2]
    ids = [a for a in args if not a.startswith("--")]
    root = os.path.join(HERE, "seeded")
    names = sorted(d for d in os.listdir(root) if os.path.isdir(os.path.join(root, d)) and (not ids or d in ids))

    def one(name):
        sdir = os.path.join(root, name)
        meta = json.load(open(os.path.join(sdir, "meta.json")))
        prop = meta["breaks_property"]
        res = detect(sdir, ALL if allc else [prop])
        return name, meta, prop, res

    caught = missed = regress = retired = 0
    with cf.ThreadPoolExecutor(jobs if not allc else max(1, jobs // 2)) as ex:
        for name, meta, prop, res in ex.map(one, names):
            if "apply_err" in res:
                print(f"{name:7s} APPLY-FAIL (run tools/rebase_diffs.py): {res['apply_err'].strip().splitlines()[-1][:100]}")
                regress += 1
                continue
            own = prop in res and res[prop].get("rc") == 1 and bool(res[prop].get("violated"))
            if meta.get("retired"):
                # a later `fix:` commit made this change harmless (tools/reverify_demos.py): silence is the right answer now
                retired += 1
                print(f"{name:7s} {'retired: ' + ('STILL FLAGGED' if own else 'silent, as it should be'):28s}")
                regress += bool(own)
                continue
            was = meta.get("detection", {}).get("own_property_check_flags_it")
            errs = [k for k, v in res.items() if v.get("rc") not in (0, 1)]
            tag = "caught" if own else "MISSED"
            if was and not own:
                tag += "  REGRESSION"
                regress += 1
            if own and not was:
                tag += "  (newly caught)"
            caught += own
            missed += (not own)
            first = res.get(prop, {}).get("violated", [""])[0][:110] if own else ""
            print(f"{name:7s} {tag:28s} {first}" + (f"  analysis-errors: {errs}" if errs else ""))
            sys.stdout.flush()
            if update:
                meta["detection"] = {
                    "own_property_check_flags_it": own,
                    "flagged_by": {k: v["violated"] for k, v in res.items() if v.get("rc") == 1 and v.get("violated")},
                    "analysis_errors": [f"{k}: {v.get('error')}" for k, v in res.items() if v.get("rc") not in (0, 1)],
                    "how": "tools/seedcheck.py detect: patch applied to a scratch worktree, every quick check run with --repo <worktree>",
                }
                with open(os.path.join(root, name, "meta.json"), "w") as f:
                    json.dump(meta, f, indent=1)
                    f.write("\n")
    print(f"caught by own check: {caught}/{caught + missed}; retired (harmless since a fix): {retired}; regressions: {regress}")
    return 1 if regress else 0


if __name__ == "__main__":
    sys.exit(main())
